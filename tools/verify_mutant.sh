#!/bin/bash
# verify_mutant.sh <worktree> <outdir>: from a CLEAN worktree confirm (1) patch applies, compiles, whole suite passes with it,
# (2) the demonstration fails with the patch and passes without it.  (No git stash: the stash is shared by all worktrees.)
wt=$1; out=$2
cd "$wt" || exit 2
export CARGO_TARGET_DIR=$wt/target
git checkout -q -- . ; rm -f tests/zz_demo.rs
git apply "$out/patch.diff" || { echo "PATCH DOES NOT APPLY"; exit 1; }
suite=$(cargo test --offline 2>&1 | grep -E "^test result" | awk '{p+=$4; f+=$6} END {print p" passed "f" failed"}')
demo=$(ls "$out"/demo*.rs | grep -v unit | head -1)
cp "$demo" tests/zz_demo.rs
with=$(cargo test --offline --test zz_demo 2>&1 | grep -E "^test result|error\[|signal|abort" | head -1)
git apply -R "$out/patch.diff"
without=$(cargo test --offline --test zz_demo 2>&1 | grep -E "^test result|error\[|signal|abort" | head -1)
rm -f tests/zz_demo.rs
echo "SUITE(with patch): $suite | DEMO with: $with | without: $without"
