#!/bin/bash
# verify_mutant.sh <worktree> <outdir>: confirm (1) compiles + whole suite passes with the patch, (2) the demonstration
# fails with the patch and passes without it.  Prints a summary line.
wt=$1; out=$2
cd "$wt" || exit 2
export CARGO_TARGET_DIR=$wt/target
git diff > /tmp/vm_patch.$$; if ! diff -q /tmp/vm_patch.$$ "$out/patch.diff" >/dev/null; then echo "NOTE: worktree diff differs from patch.diff"; fi
suite=$(cargo test --offline 2>&1 | grep -E "^test result" | awk '{p+=$4; f+=$6} END {print p" passed "f" failed"}')
demo=$(ls "$out"/demo*.rs | head -1)
kind=integration
if grep -q "super::\*\|State::new" "$demo"; then kind=unit; fi
if [ $kind = integration ]; then
  cp "$demo" tests/zz_demo.rs
  with=$(cargo test --offline --test zz_demo 2>&1 | grep -E "^test result" | head -1)
  git stash -q -- src
  without=$(cargo test --offline --test zz_demo 2>&1 | grep -E "^test result" | head -1)
  git stash pop -q
  rm -f tests/zz_demo.rs
else
  with="(unit-test demo: see README)"; without=""
fi
echo "SUITE: $suite | DEMO with patch: $with | without: $without"
rm -f /tmp/vm_patch.$$
