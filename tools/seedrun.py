#!/usr/bin/env python3
"""seedrun.py <patch.diff> <check ids...>: apply a seeded change to /repo, run the given checks (quick), undo it.
Prints one line per check: id, exit code, first VIOLATION detail."""
import subprocess, sys, os
patch = sys.argv[1]
ids = sys.argv[2:]
def sh(cmd, **kw):
    return subprocess.run(cmd, shell=True, stdout=subprocess.PIPE, stderr=subprocess.STDOUT, universal_newlines=True, **kw)
assert sh("git -C /repo status --porcelain").stdout.strip() == "", "/repo is not clean"
r = sh("git -C /repo apply %s" % patch)
assert r.returncode == 0, r.stdout
try:
    for i in ids:
        r = sh("cd /verif && VERIF_SEED=%s ./check %s --tier quick" % (os.environ.get("VERIF_SEED", "0"), i))
        lines = [l for l in r.stdout.splitlines() if l.startswith("VIOLATION") or l.startswith("TOOL-ERROR") or l.startswith("OK ")]
        detail = [l.strip() for l in r.stdout.splitlines() if l.startswith("   ")][:1]
        nv = sum(1 for l in r.stdout.splitlines() if l.startswith("VIOLATION"))
        print("%s exit=%d violations=%d %s %s" % (i, r.returncode, nv, (lines[0][:120] if lines else ""), (detail[0][:260] if detail else "")), flush=True)
finally:
    sh("git -C /repo checkout -- .")
    assert sh("git -C /repo status --porcelain").stdout.strip() == ""
