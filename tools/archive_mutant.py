#!/usr/bin/env python3
"""archive_mutant.py <name> <outdir> <property> <needs> <caught_by(comma)> <missed_by(comma)|-> <note>"""
import json, os, shutil, sys
name, out, prop, needs, caught, missed, note = sys.argv[1:8]
d = os.path.join("/verif/seeded", name)
os.makedirs(d, exist_ok=True)
for f in os.listdir(out):
    if f.endswith(".diff") or f.endswith(".rs") or f == "README.md":
        shutil.copy(os.path.join(out, f), os.path.join(d, f))
meta = dict(property=prop, needs_to_manifest=needs, source="independent sub-agent given only the property text and a scratch worktree",
            confirmed=["compiles", "unedited suite passes with the change (172 tests + 22 doc-tests)", "demonstration fails with the change and passes without it (re-run by the framework author in the scratch worktree)"],
            ran="tools/seedrun.py <patch> <checks> (git apply to /repo, ./check <id> --tier quick with VERIF_SEED=0, git checkout -- .)",
            caught_by=[c for c in caught.split(",") if c], missed_by=[c for c in missed.split(",") if c and c != "-"], note=note)
json.dump(meta, open(os.path.join(d, "meta.json"), "w"), indent=1)
print("archived", d)
