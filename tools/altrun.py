#!/usr/bin/env python3
"""altrun.py <patch> <check ids...>: evaluate a seeded change WITHOUT touching /repo (used while a long run holds /repo):
a clone of /repo in /tmp/alt/repo gets the patch, a copy of /verif in /tmp/alt/verif (harness path dependency redirected) runs the checks.
Registered commands and evidence always come from /verif against /repo; this is only for mutant evaluation."""
import os, subprocess, sys
def sh(c): return subprocess.run(c, shell=True, stdout=subprocess.PIPE, stderr=subprocess.STDOUT, universal_newlines=True)
patch = os.path.abspath(sys.argv[1]); ids = sys.argv[2:]
A = "/tmp/alt"
os.makedirs(A, exist_ok=True)
if not os.path.isdir(A + "/repo"):
    assert sh("git clone -q /repo %s/repo" % A).returncode == 0
print(sh("cd %s/repo && git checkout -q -- . && git fetch -q origin && git reset -q --hard origin/HEAD 2>&1 | tail -1" % A).stdout, end="")
r = sh("rsync -a --delete --exclude work --exclude harness/target --exclude .git --exclude evidence /verif/ %s/verif/" % A)
assert r.returncode == 0, r.stdout
sh("sed -i 's#path = \"/repo\"#path = \"%s/repo\"#' %s/verif/harness/Cargo.toml %s/verif/harness/conc/Cargo.toml" % (A, A, A))
os.makedirs(A + "/verif/evidence", exist_ok=True)
r = sh("git -C %s/repo apply %s" % (A, patch))
assert r.returncode == 0, "patch does not apply: " + r.stdout
try:
    for i in ids:
        r = sh("cd %s/verif && VERIF_SEED=%s ./check %s --tier quick" % (A, os.environ.get("VERIF_SEED", "0"), i))
        lines = [l for l in r.stdout.splitlines() if l.startswith(("VIOLATION", "OK ", "TOOL-ERROR"))]
        nv = len([l for l in lines if l.startswith("VIOLATION")])
        print("%s exit=%d violations=%d %s" % (i, r.returncode, nv, (lines[0] if lines else r.stdout[-300:])[:600]))
finally:
    sh("git -C %s/repo checkout -q -- ." % A)
