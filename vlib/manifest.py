"""MANIFEST.json is generated from this table (`./check manifest`) so that it is always valid."""
import json, os

from .common import VERIF

HOOK_COMMITS = ["cbda835", "abe77a7"]

TCB = "TLC evaluating the specification; the harness (vh) as recorder/printer; bounds stated in evidence"

CHECKS = {
    "C01": dict(level="model_checking", ref="6 C01",
                text="RefSem.tla (ordered-backtracking reference semantics) decides every (pattern, text, offset) cell of the spec-exported "
                     "spaces; TLC recomputes Search for every cell and requires exactly the rows recorded from the real engine (trace "
                     "validation of API records), exhaustively up to the node/text bounds plus contexts x fillers and seeded random patterns.",
                note="Bounded: node bound of Gram!P, text length bound, alphabet of 6 symbols. " + TCB + ". Patterns with unbounded repeats of nullable bodies (class of finding F1, probed by witness) are compared with the design model (Compile.tla program run by VM.tla) instead of RefSem where the loop is run by the VM, and left unjudged where a delegated piece is of the class.",
                technique="TLA+ reference semantics evaluated by TLC + trace validation of recorded search results"),
    "C02": dict(level="model_checking", ref="6 C02",
                text="As C01 with every capture group of every match compared against the reference match path (last iteration, None for "
                     "non-participating groups, look-around captures kept).",
                note="Same bounds and trusted base as C01; references restricted to groups closed earlier.",
                technique="TLA+ reference semantics evaluated by TLC + trace validation of recorded captures"),
    "C03": dict(level="model_checking", ref="6 C03",
                text="Metamorphic law as a theorem of the spec: TLC checks Search(inject(p)) = Search(p) on the model and requires the rows "
                     "recorded for every single-site (?=)-injection (exported from Gram!Injections) and seeded multi-site injections to equal "
                     "the reference result of the base pattern, all groups. The text handed to the regex crate is covered directly: ToStr.tla mirrors Expr::to_str, "
                     "MC_ToStr shows the printed text re-reads (RxRead.tla) to the subtree's meaning at every precedence and for runs of pieces, and TraceToStr "
                     "judges the REAL printed text of every subtree of every input by its meaning.",
                note="Same bounds as C01; injected spellings that do not compile are skipped as the property allows. " + TCB,
                technique="TLC-checked spec lemma + trace validation of injected spellings against the base pattern's reference result + TLA+ mirror of Expr::to_str model-checked (MC_ToStr) and trace-validated by meaning (TraceToStr/RxRead)"),
    "C04": dict(level="model_checking", ref="6 C04",
                text="Every public entry point is recorded on fancy_regex::Regex and on regex::Regex for the same pattern string; TLC requires the two "
                     "recordings to be equal (the property verbatim) and both equal to Api.tla over RefSem; iterator laws model-checked in MC_Iter.",
                note="Common-syntax grammar bounded as in C01, plain/(?U)/(?x) spellings; fancy = regex but != spec is reported as a tool error (model gap), never as a verdict. " + TCB,
                technique="differential recording validated by TLC against the TLA+ API model (Api.tla over RefSem)"),
    "C05": dict(level="model_checking", ref="6 C05",
                text="VM.tla marks every slicing/unwrap site of vm.rs as a `panic` state; MC_Hybrid runs the REAL programs of the unrestricted grammar under VM.tla "
                     "with invariants at every state (no panic site reachable, ix on a character boundary, capture slots valid, answer valid); every public entry "
                     "point is recorded under catch_unwind over texts with 1-4 byte characters and TLC judges every raw offset; real VM traces are validated step by step.",
                note="Memory safety itself is not modelled (the model says where the Rust code would panic). Bounds: unrestricted grammar to 3 nodes + shapes + random, texts up to length 3. " + TCB,
                technique="TLC model checking of the VM model on real programs + trace validation of API records and VM traces"),
    "C06": dict(level="exploration", ref="6 C06",
                text="Contract.tla gives the compile contract (Ok or Err, error position <= length, time budget) and the input model: every sequence of up to N "
                     "fragments of a 100-fragment vocabulary (exported by TLC), an amplification family opener^k body closer^k (k up to 100000), random longer "
                     "sequences and mutations of valid spellings; each input is compiled in a resource-limited child process from a debug build (overflow checks on), "
                     "a dead child being the outcome of the input it was processing; TLC checks the contract on every recorded outcome. The parser stage has an exact "
                     "oracle: Parse.tla (function-by-function mirror of parse.rs; MC_Parse model-checks 'error position <= length' and tree well-formedness for ALL "
                     "strings up to the bound) must produce the same tree, named groups, error kind and byte position as Expr::parse_tree on every input.",
                note="Honest level: exploration - a TLA+ model does not predict panics, overflow, allocation or native stack depth; it supplies the space and the contract. "
                     "Limits: 2 GiB address space, CPU limit per child, 5 s + 1 ms/byte per input.",
                technique="spec-defined input space and contract; sandboxed compilation; trace validation of outcomes by TLC"),
    "C07": dict(level="model_checking", ref="6 C07",
                text="Per (pattern, text, offset) the unlimited search with hook statistics and the same search under limits {0,1,2,3,5,10,100,10^6,B-1,B} are recorded; "
                     "TLC runs VM.tla on the real program under each limit and requires the recorded outcome, the exact threshold B, no runtime error by default "
                     "on tiny inputs and the step bound; MC_Hybrid checks termination/no-runtime-error on real programs of the unrestricted grammar.",
                note="StepBound is this framework's own (generous) formula. Bounds as C05. " + TCB,
                technique="trace validation of limit behaviour against the TLA+ VM model + TLC model checking of termination"),
    "C08": dict(level="model_checking", ref="6 C08",
                text="MC_Iter model-checks the Matches state machine for every leaf behaviour allowed by the leaf contract (order, no overlap, termination, "
                     "sticky error); complete find_iter histories of the real library are validated by TLC against Api!FindIter over RefSem, incl. error histories under tiny backtrack limits.",
                note="Text length bound in MC_Iter; pattern/text bounds as C01 (+\\G). " + TCB,
                technique="TLC model checking of the iterator state machine + trace validation of recorded histories"),
    "C09": dict(level="model_checking", ref="6 C09",
                text="TLC checks the coherence equations among values recorded from the seven entry points and both iterators on the unrestricted grammar; "
                     "no reference semantics is involved, so self-references, \\G/\\K and nullable loops are in scope.",
                note="Bounds: wild grammar to the node bound + random, texts with 1-4 byte characters up to length 3. " + TCB,
                technique="trace validation of recorded API values against the coherence predicate of the TLA+ API model"),
    "C10": dict(level="model_checking", ref="6 C10",
                text="MC_Iter checks the Split/SplitN machines against the partition laws (pieces = matches+1, tiling, remainder, n=0) for every leaf behaviour; "
                     "ApaSplit.tla: Apalache discharges an inductive invariant (valid slices, tiling, limit countdown) for EVERY text length and limit; "
                     "recorded piece sequences of split and splitn(0..5) are validated by TLC against RefSplit/RefSplitN over the reference matches.",
                note="As C08.", technique="TLC model checking of Split/SplitN + Apalache inductive invariant for every text length and limit + trace validation of recorded piece sequences"),
    "C11": dict(level="model_checking", ref="6 C11",
                text="Recorded try_replacen results (string, Cow variant, errors) for limits 0..3 x 8 replacers are validated by TLC against RefReplace over the "
                     "reference matches, with Expand.tla giving the meaning of templates; borrowed results are counted and must equal the number of match-less texts. "
                     "ApaReplace.tla: Apalache discharges an inductive invariant of the replacement loop (valid slices, copied stretches and replaced matches tile the text, at most K replacements) for EVERY text length and limit.",
                note="Texts up to length 2 exhaustively (3 sampled in thorough); pattern bounds as C08. " + TCB,
                technique="trace validation of recorded replacement results against the TLA+ API/Expand model + Apalache inductive invariant of the replacement loop"),
    "C12": dict(level="model_checking", ref="6 C12",
                text="MC_Expand model-checks the template scanner step by step (escape round trip, check soundness, progress, step-wise output = Expansion) for every "
                     "template up to the bound; recorded outputs of all public expansion entry points, check() and escape() are recomputed by TLC (TraceExpand).",
                note="Template alphabet of 14 symbols; exhaustive to length 3 (quick) / 4 (thorough), longer templates sampled; three capture fixtures. " + TCB,
                technique="TLC model checking of the scanner + trace validation of recorded expansions"),
    "C13": dict(level="model_checking", ref="6 C13",
                text="The real per-node size facts (hook) of every pattern are checked by TLC for SOUNDNESS against all lengths RefSem can witness for the node "
                     "(all texts x positions x assignments of referenced groups); the look-behind compile decision is checked against witnessed arm lengths; "
                     "the mirror Analyze.tla is checked the same way (model) and its drift from the code is reported; accepted look-behinds are validated "
                     "behaviourally on multi-byte texts (rows).",
                note="Soundness is refutable, not provable, by enumeration: texts over {a,b} up to length 3 for lengths, 1-4 byte alphabet for behaviour. " + TCB,
                technique="trace validation of hook-exposed analysis facts against lengths enumerated by TLC from the TLA+ reference semantics"),
    "C14": dict(level="model_checking", ref="6 C14",
                text="Options.tla states case_insensitive(true) as the transformation ApplyCasei of the pattern; rows recorded from four builds of every pattern "
                     "(builder option, (?i) prefix, no option, option off) are validated by TLC against RefSem of the transformed / untransformed AST; size-limit "
                     "fixtures: every host around a big delegated piece must be accepted or rejected exactly like the piece alone.",
                note="Mixed-case grammar to the node bound, texts over {a,A,b,B} up to length 3; size limits checked on 2 pieces x 6 hosts only; backtrack_limit is C07's. " + TCB,
                technique="TLA+ model of the options as AST transformation + trace validation of recorded searches"),
    "C15": dict(level="model_checking", ref="6 C15",
                text="Conditional grammar (both forms, exhaustive to the node bound) and conditional fillers x contexts (atomic groups, loops, "
                     "look-arounds, other conditions) validated cell by cell against RefSem's conditional clauses, all groups compared.",
                note="Same bounds and trusted base as C01.",
                technique="TLA+ reference semantics evaluated by TLC + trace validation of recorded captures"),
    "C16": dict(level="model_checking", ref="6 C16",
                text="captures_len, capture_names and, for every first match, Captures::len / iter / get / name are recorded and validated by TLC against counts and "
                     "names computed from the AST (opening-parenthesis numbering) and against the accessor equations, for delegated and VM-compiled patterns, "
                     "numbered and all-named twins.",
                note="Unrestricted grammar to the node bound + contexts x fillers + random; texts up to length 2. " + TCB,
                technique="trace validation of recorded metadata against AST-derived expectations evaluated by TLC"),
    "C17": dict(level="model_checking", ref="6 C17",
                text="Escape.tla defines the special set, the borrow rule and the meaning (literal sequence); for every string up to the bound TLC recomputes escape(s), "
                     "the Cow variant and, via RefSem, every span found by the escaped string alone and inside five fancy hosts in six derived haystacks; "
                     "the lemma Search(LitSeq(s)) = str::find is checked by TLC on the same cases.",
                note="Exhaustive to length 2 (quick) / 3 (thorough) over 24 symbols incl. all specials and 2-4 byte characters; longer strings sampled. " + TCB,
                technique="TLA+ model of escape + trace validation of recorded escapes and searches"),
    "C18": dict(level="model_checking", ref="6 C18",
                text="Conc.tla: N threads x 2 calls on one shared program, one action per VM instruction, the inner engine's cache pool as acquire/run/release; TLC checks "
                     "for all interleavings that every call returns its sequential result, caches are exclusive, no deadlock (negative controls: broken pool, hoisted slots). "
                     "Binding: static Send+Sync+Clone assertion; barrier-started stress on shared references and clones whose result sets are validated against RefSem.",
                note="The design is model-checked (2 threads quick, 3 thorough); the binding is exploration: real schedules are sampled (2..16 threads), not enumerated. " + TCB,
                technique="TLC model checking of the concurrency model + stress recording validated by TLC"),
    "C19": dict(level="model_checking", ref="6 C19",
                text="Spell.tla generates, for every base pattern, the documented-equivalent spellings (13 styles: free spacing and comments, named/numbered/relative "
                     "references, inline vs scoped flags, hex/unicode escapes, possessive vs atomic, \\A \\z); every spelling is compiled and run over all cells; TLC "
                     "requires rows = RefSem of the base pattern and the same parser tree as the plain spelling; in the other direction the real parser's tree for "
                     "every spelling must equal the tree Parse.tla (parser model) computes, and in the model a spelling and its plain form must parse alike; "
                     "MC_Pipeline runs the whole specified pipeline (Spell -> Parse.tla -> Front -> Analyze -> Compile -> VM.tla) against RefSem of the intended pattern for every style; "
                     "MC_Front closes the loop in the specification: Norm(Abs(Parse.tla(Spell(ast, style)))) = Norm(ast), group count and named-group map, for every pattern x style.",
                note="Spellings are generated by Spell.tla; the parser is ALSO modelled as a recogniser (Parse.tla), validated on every spelling and on the C06 input spaces. Findings F10 (inline flags leaking out of capturing "
                     "groups) and F11 (blank inside a class under (?x)) are recorded, probed by witnesses and kept out of the generated styles. " + TCB,
                technique="TLA+ generative model of the concrete syntax + trace validation of recorded searches and parser trees"),
    "C20": dict(level="model_checking", ref="6 C20",
                text="SaveLogOps.tla transcribes vm.rs::State operation by operation next to the whole-state-copy model; TLC checks the refinement invariant over ALL "
                     "operation sequences up to the bound; every history TLC generated (one per reached state) and long simulated histories are replayed into the "
                     "REAL State through the hook wrapper and TLC compares the observable state after every single operation with the abstract model.",
                note="Bounds: 2 slots x 2 values (quick) / 3 x 3 (thorough), branch depth 3, explicit-stack depth 2, sequence length 5-8; simulated histories of length 40. "
                     "Program-level replay on real regex runs is provided by the VM trace validation of C05/C07. " + TCB,
                technique="TLC refinement check of the undo log + replay of TLC-generated histories into the real State with per-step comparison"),
}

NOT_YET = {
}

ALL = ["C%02d" % i for i in range(1, 21)]


def build():
    checks = []
    for pid in ALL:
        if pid not in CHECKS:
            continue
        c = CHECKS[pid]
        checks.append(dict(
            property_id=pid,
            quick_cmd="./check %s --tier quick" % pid,
            thorough_cmd="./check %s --tier thorough" % pid,
            evidence_file="evidence/%s.json" % pid,
            replay_cmd_template="./check %s --replay {path}" % pid,
            engine="tlc",
            level_claimed=dict(category=c["level"], text=c["text"], design_ref="DESIGN.md section " + c["ref"]),
            level_note=c["note"],
            technique=c["technique"]))
    na = [dict(property_id=p, reason=NOT_YET.get(p, "check not built yet in this commit (see DESIGN.md section 12, order of construction)"))
          for p in ALL if p not in CHECKS]
    return dict(
        version=1,
        setup_cmd="./check setup",
        hooks=dict(guard="fancy_regex_verif",
                   enable="cargo rustflags in /verif/harness/.cargo/config.toml: --cfg fancy_regex_verif --check-cfg cfg(fancy_regex_verif)",
                   baseline_off_cmd="cd /repo && cargo test --workspace --no-fail-fast --offline",
                   source_commits=HOOK_COMMITS, add_only=True),
        engines=[dict(name="tlc", path="/verif/spec", serves_properties=sorted(CHECKS), kind_free_text="explicit TLA+ specification checked with TLC; conformance by trace validation / replay against /repo")],
        checks=checks,
        notes="Driver: ./check <ID> [--tier quick|thorough] [--replay file]; VERIF_SEED and VERIF_TIER are honoured. known_findings.json lists recorded defects and fix: commits.",
        not_applicable=na)


def write():
    with open(os.path.join(VERIF, "MANIFEST.json"), "w") as f:
        json.dump(build(), f, indent=1)
