"""MANIFEST.json is generated from this table (`./check manifest`) so that it is always valid."""
import json, os

from .common import VERIF

HOOK_COMMITS = []

TCB = "TLC evaluating the specification; the harness (vh) as recorder/printer; bounds stated in evidence"

CHECKS = {
    "C01": dict(level="model_checking", ref="6 C01",
                text="RefSem.tla (ordered-backtracking reference semantics) decides every (pattern, text, offset) cell of the spec-exported "
                     "spaces; TLC recomputes Search for every cell and requires exactly the rows recorded from the real engine (trace "
                     "validation of API records), exhaustively up to the node/text bounds plus contexts x fillers and seeded random patterns.",
                note="Bounded: node bound of Gram!P, text length bound, alphabet of 6 symbols. " + TCB + ". Unbounded repeats of nullable bodies are excluded (finding F1, probed by witness).",
                technique="TLA+ reference semantics evaluated by TLC + trace validation of recorded search results"),
    "C02": dict(level="model_checking", ref="6 C02",
                text="As C01 with every capture group of every match compared against the reference match path (last iteration, None for "
                     "non-participating groups, look-around captures kept).",
                note="Same bounds and trusted base as C01; references restricted to groups closed earlier.",
                technique="TLA+ reference semantics evaluated by TLC + trace validation of recorded captures"),
    "C03": dict(level="model_checking", ref="6 C03",
                text="Metamorphic law as a theorem of the spec: TLC checks Search(inject(p)) = Search(p) on the model and requires the rows "
                     "recorded for every single-site (?=)-injection (exported from Gram!Injections) and seeded multi-site injections to equal "
                     "the reference result of the base pattern, all groups.",
                note="Same bounds as C01; injected spellings that do not compile are skipped as the property allows. " + TCB,
                technique="TLC-checked spec lemma + trace validation of injected spellings against the base pattern's reference result"),
    "C15": dict(level="model_checking", ref="6 C15",
                text="Conditional grammar (both forms, exhaustive to the node bound) and conditional fillers x contexts (atomic groups, loops, "
                     "look-arounds, other conditions) validated cell by cell against RefSem's conditional clauses, all groups compared.",
                note="Same bounds and trusted base as C01.",
                technique="TLA+ reference semantics evaluated by TLC + trace validation of recorded captures"),
}

NOT_YET = {
}

ALL = ["C%02d" % i for i in range(1, 21)]


def build():
    checks = []
    for pid in ALL:
        if pid not in CHECKS:
            continue
        c = CHECKS[pid]
        checks.append(dict(
            property_id=pid,
            quick_cmd="./check %s --tier quick" % pid,
            thorough_cmd="./check %s --tier thorough" % pid,
            evidence_file="evidence/%s.json" % pid,
            replay_cmd_template="./check %s --replay {path}" % pid,
            engine="tlc",
            level_claimed=dict(category=c["level"], text=c["text"], design_ref="DESIGN.md section " + c["ref"]),
            level_note=c["note"],
            technique=c["technique"]))
    na = [dict(property_id=p, reason=NOT_YET.get(p, "check not built yet in this commit (see DESIGN.md section 12, order of construction)"))
          for p in ALL if p not in CHECKS]
    return dict(
        version=1,
        setup_cmd="./check setup",
        hooks=dict(guard="fancy_regex_verif",
                   enable="cargo rustflags in /verif/harness/.cargo/config.toml: --cfg fancy_regex_verif --check-cfg cfg(fancy_regex_verif)",
                   baseline_off_cmd="cd /repo && cargo test --workspace --no-fail-fast --offline",
                   source_commits=HOOK_COMMITS, add_only=True),
        engines=[dict(name="tlc", path="/verif/spec", serves_properties=sorted(CHECKS), kind_free_text="explicit TLA+ specification checked with TLC; conformance by trace validation / replay against /repo")],
        checks=checks,
        notes="Driver: ./check <ID> [--tier quick|thorough] [--replay file]; VERIF_SEED and VERIF_TIER are honoured. known_findings.json lists recorded defects and fix: commits.",
        not_applicable=na)


def write():
    with open(os.path.join(VERIF, "MANIFEST.json"), "w") as f:
        json.dump(build(), f, indent=1)
