"""The "rows" conformance pipeline (layer L0): real engine on pattern x text x offset cells, TLC
(TraceRows.tla = RefSem) recomputes every cell and requires exactly the logged rows."""
import json, os

from . import tlc
from .common import VH, ToolError, clean_prefix, log, read_ndjson, vh, workdir, write_ndjson

NSHARDS = 16


def run_rows(ctx, name, recs, texts_path, mode, excl="", violation=True, shards=NSHARDS, lemma=False):
    """recs: list of {id, ast, ng}.  Returns dict(stats=..., rejects=[...], cerr=[...])."""
    d = workdir(ctx.prop)
    asts = os.path.join(d, name + ".asts.ndjson")
    write_ndjson(asts, recs)
    prefix = os.path.join(d, name + ".rows")
    clean_prefix(prefix)
    shards = max(1, min(shards, (len(recs) + 39) // 40))
    import time
    t0 = time.time()
    vh(["rows", "--asts", asts, "--texts", texts_path, "--out", prefix, "--shards", shards])
    envs = [dict(VH_RECS="%s.%d.ndjson" % (prefix, i), VH_TEXTS=texts_path, VH_MODE=mode, VH_EXCL=excl, VH_LEMMA="1" if lemma else "0") for i in range(shards)]
    rs = tlc.run_shards("TraceRows", envs)
    tlc.require_clean(rs, "TraceRows(%s)" % name)
    log("rows %s: %d records, %.1fs (slowest shard %.1fs)" % (name, len(recs), time.time() - t0, max(r.wall for r in rs)))
    ctx.add_tlc(rs)
    stats = {}
    rejects, cerr, lemmafail, treediff = [], [], [], []
    for r in rs:
        st = r.tagged("STATS")
        if len(st) != 1:
            raise ToolError("TraceRows(%s): a shard did not report STATS" % name)
        for k, v in st[0].items():
            stats[k] = stats.get(k, 0) + v
        rejects += r.tagged("REJECT")
        cerr += r.tagged("CERR")
        lemmafail += r.tagged("LEMMAFAIL")
        treediff += r.tagged("TREEDIFF")
    stats["cells_per_pattern"] = stats["cells_per_pattern"] // shards
    if stats["records"] != len(recs):
        raise ToolError("TraceRows(%s): %d records validated, %d expected" % (name, stats["records"], len(recs)))
    # unexpected compile errors: everything except the conservative look-behind rejection
    odd = [c for c in cerr if not (c["ek"] == "CompileError(LookBehindNotConst)" and "(?<" in c["pat"])]
    ctx.traces += stats["ok"]
    ctx.evaluations += (stats["ok"] + stats["rejected"]) * stats["cells_per_pattern"]
    ctx.nontrivial += stats["matching_cells"]
    ctx.cov.setdefault("spaces", {})[name] = dict(stats, unexpected_compile_errors=len(odd), texts=os.path.basename(texts_path), mode=mode)
    if lemmafail:
        # the metamorphic law is a theorem of RefSem; if TLC refutes it the SPECIFICATION is wrong
        raise ToolError("spec-level lemma Search(injected) = Search(base) refuted by TLC for %s" % lemmafail[0]["pat"])
    if odd:
        ctx.note("%s: %d patterns of the space did not compile, e.g. %s (%s)" % (name, len(odd), odd[0]["pat"], odd[0]["ek"]))
    if violation:
        for j in rejects:
            ref = "the design model (Compile.tla program run by VM.tla; pattern of the class of finding F1)" if j.get("design") else "RefSem"
            ctx.violation("pattern %s: cell %s expected by %s but not produced; cell %s produced but not allowed (row = [text#, byte offset, status, caps...])"
                          % (j["pat"], j["expected_not_logged"], ref, j["logged_not_expected"]),
                          dict(kind="rows", space=name, mode=mode, texts=texts_path, ast=j["ast"], base=j.get("base"), ng=j["ng"], pat=j["pat"],
                               expected_not_logged=j["expected_not_logged"], logged_not_expected=j["logged_not_expected"]))
    if violation:
        for j in treediff:
            ctx.violation("spelling %s (style %s) parses to a different expression tree than the plain spelling" % (j["pat"], j["style"]),
                          dict(kind="tree", space=name, pat=j["pat"], style=j["style"]))
    # a few samples: pattern + number of matching cells, straight from the harness records
    try:
        with open("%s.0.ndjson" % prefix) as f:
            for i, line in enumerate(f):
                if i >= 2:
                    break
                r = json.loads(line)
                ctx.samples.append(dict(space=name, pattern=r["pat"], status=r["st"], rows_logged=len(r["rows"]), first_rows=r["rows"][:3]))
    except OSError:
        pass
    return dict(stats=stats, rejects=rejects, cerr=cerr, odd=odd, treediff=treediff)


def probe_witness(ctx, finding, w, mode):
    """Re-run one known-finding witness (kind=rows) without exclusions; True if it still fails."""
    d = workdir(ctx.prop)
    tpath = os.path.join(d, "witness.texts.ndjson")
    write_ndjson(tpath, [{"t": t} for t in w["texts"]])
    sub = type(ctx)(ctx.prop, ctx.tier, ctx.seed)
    rec = {"id": 1, "ast": w["ast"], "ng": w["ng"]}
    if "toks" in w:
        rec.update(toks=w["toks"], base=w["ast"], sametree=False, style=0)
    res = run_rows(sub, "witness", [rec], tpath, mode, excl="", violation=False, shards=1)
    ctx.states += sub.states
    ctx.transitions += sub.transitions
    return bool(res["rejects"]) or bool(res["odd"])
