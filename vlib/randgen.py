"""Seeded random ASTs (the format of spec/Ast.tla) beyond the exhaustive bound.  The generator is
only a sampler: every AST it emits is validated by TLC against the same RefSem as the exhaustive
spaces, and the exclusion predicates are applied by the validator, not here."""

ZERO = {"bol", "eol", "mbol", "meol", "wb", "nwb", "lwb", "rwb", "eolz", "empty", "keep", "cont", "bex", "look", "lookb"}
CHAR = {"lit", "any", "class"}


def kids(e):
    k = e["k"]
    if k in ("cat", "alt"):
        return e["xs"]
    if k in ("rep", "grp", "atom", "look", "lookb"):
        return [e["x"]]
    if k == "cond":
        return [e["c"], e["y"], e["n"]]
    return []


def fixlen(e):
    k = e["k"]
    if k in CHAR:
        return 1
    if k in ZERO:
        return 0
    if k == "cat":
        s = 0
        for x in e["xs"]:
            l = fixlen(x)
            if l < 0:
                return -1
            s += l
        return s
    if k == "alt":
        ls = [fixlen(x) for x in e["xs"]]
        return ls[0] if ls[0] >= 0 and all(l == ls[0] for l in ls) else -1
    if k == "rep":
        a = fixlen(e["x"])
        if a == 0:
            return 0
        return a * e["lo"] if a > 0 and e["lo"] == e["hi"] else -1
    if k in ("grp", "atom"):
        return fixlen(e["x"])
    if k == "cond":
        a, b, c = fixlen(e["c"]), fixlen(e["y"]), fixlen(e["n"])
        return c if a >= 0 and b >= 0 and c >= 0 and a + b == c else -1
    return -1


def nullable(e):
    k = e["k"]
    if k in CHAR:
        return False
    if k in ZERO or k == "bref":
        return True
    if k == "cat":
        return all(nullable(x) for x in e["xs"])
    if k == "alt":
        return any(nullable(x) for x in e["xs"])
    if k == "rep":
        return e["lo"] == 0 or nullable(e["x"])
    if k in ("grp", "atom"):
        return nullable(e["x"])
    if k == "cond":
        return (nullable(e["c"]) and nullable(e["y"])) or nullable(e["n"])
    raise ValueError(k)


def has_f1(e):
    if e["k"] == "rep" and e["hi"] < 0 and nullable(e["x"]):
        return True
    return any(has_f1(x) for x in kids(e))


def size(e):
    return 1 + sum(size(x) for x in kids(e))


def kinds(e, acc=None):
    acc = set() if acc is None else acc
    acc.add(e["k"])
    for x in kids(e):
        kinds(x, acc)
    return acc


def repeatable(e):
    return e["k"] not in ("look", "lookb", "empty", "bol", "eol", "mbol", "meol", "wb", "nwb", "lwb", "rwb", "eolz")


class Gen:
    """profile: dict(chars=[tokens], asserts=[kinds], feats=set(...), unrestricted=bool)"""

    def __init__(self, rng, profile):
        self.r = rng
        self.p = profile
        self.ng = 0
        self.closed = []
        self.open = []
        # numbered and named references cannot be mixed: a pattern is either all-named or all-numbered
        self.named = "names" in profile["feats"] and rng.random() < 0.5

    def lit(self):
        r = self.r
        c = r.choice(self.p["chars"])
        ci = "casei" in self.p["feats"] and r.random() < 0.3
        return {"k": "lit", "c": c, "ci": ci}

    def atom(self):
        r = self.r
        f = self.p["feats"]
        x = r.random()
        if x < 0.55:
            return self.lit()
        if x < 0.63:
            return {"k": "any", "nl": "dotnl" in f and r.random() < 0.3}
        if x < 0.73:
            n = r.randint(1, 2)
            return {"k": "class", "set": r.sample(self.p["chars"], min(n, len(self.p["chars"]))), "neg": r.random() < 0.3,
                    "ci": "casei" in f and r.random() < 0.3}
        if x < 0.83 and self.p["asserts"]:
            return {"k": r.choice(self.p["asserts"])}
        if x < 0.86 and "keep" in f:
            return {"k": "keep"}
        if x < 0.88 and "cont" in f:
            return {"k": "cont"}
        if x < 0.96 and "bref" in f:
            t = self.targets()
            if t:
                return self.ref({"k": "bref", "n": r.choice(t)})
        if "bex" in f:
            t = self.targets()
            if t:
                return self.ref({"k": "bex", "n": r.choice(t)})
        return self.lit()

    def ref(self, e):
        if self.named:
            e["named"] = True
        return e

    def targets(self):
        if self.p.get("unrestricted"):
            return list(range(1, self.ng + 1))
        return list(self.closed)

    def quant(self):
        r = self.r
        lo, hi = r.choice([(0, -1), (0, -1), (1, -1), (1, -1), (0, 1), (0, 1), (1, 2), (2, 2), (2, 3), (0, 2), (2, -1), (1, 1)])
        return lo, hi, ("lazy" not in self.p["feats"]) or r.random() < 0.65

    def gen(self, d):
        r = self.r
        f = self.p["feats"]
        if d <= 0 or r.random() < 0.22:
            return self.atom()
        x = r.random()
        if x < 0.24:
            return {"k": "cat", "xs": [self.gen(d - 1) for _ in range(r.randint(2, 3))]}
        if x < 0.40:
            return {"k": "alt", "xs": [self.gen(d - 1) for _ in range(r.randint(2, 3))]}
        if x < 0.58:
            for _ in range(5):
                save = (self.ng, list(self.closed))
                c = self.gen(d - 1)
                if repeatable(c):
                    lo, hi, g = self.quant()
                    if hi < 0 and nullable(c) and not self.p.get("allow_f1"):
                        hi = lo + 1
                    e = {"k": "rep", "x": c, "lo": lo, "hi": hi, "g": g}
                    if "possessive" in f and r.random() < 0.15:
                        e = {"k": "atom", "x": e}
                    return e
                self.ng, self.closed = save
            return self.atom()
        if x < 0.72 and "group" in f:
            self.ng += 1
            n = self.ng
            self.open.append(n)
            c = self.gen(d - 1)
            self.open.pop()
            self.closed.append(n)
            e = {"k": "grp", "n": n, "x": c}
            if self.named:
                e["named"] = True
            return e
        if x < 0.80 and "look" in f:
            return {"k": "look", "neg": r.random() < 0.45, "x": self.gen(d - 1)}
        if x < 0.87 and "lookb" in f:
            for _ in range(8):
                save = (self.ng, list(self.closed))
                c = self.gen(d - 1)
                arms = c["xs"] if c["k"] == "alt" else [c]
                if all(fixlen(a) >= 0 for a in arms):
                    return {"k": "lookb", "neg": r.random() < 0.45, "x": c}
                self.ng, self.closed = save
            return self.atom()
        if x < 0.92 and "atomic" in f:
            return {"k": "atom", "x": self.gen(d - 1)}
        if x < 1.0 and "cond" in f:
            t = self.targets()
            if t and r.random() < 0.5:
                c = self.ref({"k": "bex", "n": r.choice(t)})
            else:
                c = self.gen(d - 1)
                if c["k"] == "bref":
                    # a condition that is only a back-reference is read as the group test (?(N)..) by the parser
                    c = {"k": "cat", "xs": [c, {"k": "look", "neg": False, "x": {"k": "empty"}}]}
            y = self.gen(d - 1)
            n = self.gen(d - 1) if r.random() < 0.7 else {"k": "empty"}
            if y["k"] == "empty" and n["k"] == "empty":
                y = self.lit()
            return {"k": "cond", "c": c, "y": y, "n": n}
        return self.atom()


PROFILES = {
    "core": dict(chars=["a", "b", "c", "E", "N", "D"], asserts=["bol", "eol", "wb", "nwb", "mbol", "meol"],
                 feats={"group", "look", "lookb", "atomic", "bref", "keep", "lazy", "possessive", "dotnl"}),
    "cond": dict(chars=["a", "b", "c"], asserts=["eol", "wb"],
                 feats={"group", "look", "atomic", "bref", "bex", "cond", "lazy"}),
    "wild": dict(chars=["a", "b", "E", "T", "Q"], asserts=["bol", "eol", "wb", "nwb", "lwb", "rwb", "eolz"], unrestricted=True, allow_f1=True,
                 feats={"group", "look", "lookb", "atomic", "bref", "bex", "cond", "keep", "cont", "lazy", "possessive", "dotnl", "names"}),
    "wildlb": dict(chars=["a", "b"], asserts=["bol", "eol", "wb"], unrestricted=False, allow_f1=True,
                   feats={"group", "look", "lookb", "atomic", "bref", "bex", "cond", "keep", "lazy", "possessive"}),
    "named": dict(chars=["a", "b", "c"], asserts=["eol", "wb"], feats={"group", "names", "lazy", "look", "bref"}),
    "plain": dict(chars=["a", "b", "c", "E", "N", "D"], asserts=["bol", "eol", "wb", "nwb", "mbol", "meol"],
                  feats={"group", "lazy", "dotnl", "casei", "names"}),
    "casei": dict(chars=["a", "A", "b", "B"], asserts=["bol", "eol", "wb"],
                  feats={"group", "look", "atomic", "bref", "lazy", "casei"}),
}


def rep_nest(e):
    """maximal number of repeats nested inside one another"""
    m = max([rep_nest(x) for x in kids(e)] + [0])
    return m + (1 if e["k"] == "rep" else 0)


def random_pats(rng, profile, count, depth=3, max_nodes=14, first_id=1, max_rep_nest=3):
    """seeded sample of ASTs; repeats nested more than max_rep_nest deep are left out (the reference semantics enumerates every way a
    nest of nullable loops can match, which is exponential in the nesting depth: one such pattern stalled a thorough run for 40 minutes)"""
    prof = PROFILES[profile]
    out = []
    seen = set()
    tries = 0
    while len(out) < count and tries < count * 50:
        tries += 1
        g = Gen(rng, prof)
        ast = g.gen(depth)
        if size(ast) > max_nodes or size(ast) < 3 or rep_nest(ast) > max_rep_nest:
            continue
        key = repr(ast)
        if key in seen:
            continue
        seen.add(key)
        out.append({"id": first_id + len(out), "ast": ast, "ng": g.ng})
    return out


# ----- C03 sampler: multi-site injection of (?=) (single sites are exported exhaustively by the spec) -----
E0 = {"k": "look", "neg": False, "x": {"k": "empty"}}


def paths(e, pre=()):
    out = [pre]
    k = e["k"]
    if k in ("cat", "alt"):
        for i, x in enumerate(e["xs"]):
            out += paths(x, pre + (("xs", i),))
    elif k in ("rep", "grp", "atom", "look", "lookb"):
        out += paths(e["x"], pre + (("x", None),))
    elif k == "cond":
        for f in ("c", "y", "n"):
            out += paths(e[f], pre + ((f, None),))
    return out


def inject_at(e, path, before):
    import copy
    if not path:
        return {"k": "cat", "xs": [copy.deepcopy(E0), copy.deepcopy(e)] if before else [copy.deepcopy(e), copy.deepcopy(E0)]}
    (f, i), rest = path[0], path[1:]
    e = dict(e)
    if f == "xs":
        xs = list(e["xs"])
        xs[i] = inject_at(xs[i], rest, before)
        e["xs"] = xs
    else:
        e[f] = inject_at(e[f], rest, before)
    return e


def inject_random(rng, ast, k):
    cur = ast
    for _ in range(k):
        ps = paths(cur)
        cur = inject_at(cur, rng.choice(ps), rng.random() < 0.5)
    return cur
