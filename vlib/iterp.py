"""The iterator-history pipeline: `vh iters` records validated by TraceIter.tla (Api.tla over RefSem)."""
import json, os, time

from . import tlc
from .common import ToolError, clean_prefix, log, vh, workdir, write_ndjson

PARTS_ARG = {"fi": "fi", "ci": "fi,ci", "sp": "sp", "rp": "rp", "co": "fi,ci,co", "x4": "fi,ci,sp,rp,co", "eh": "fi,ci,sp,rp"}


def run_iters(ctx, name, recs, texts_path, part, excl="", violation=True, shards=16, regex=False, parts=None):
    d = workdir(ctx.prop)
    asts = os.path.join(d, name + ".asts.ndjson")
    write_ndjson(asts, recs)
    prefix = os.path.join(d, name + ".iters")
    clean_prefix(prefix)
    shards = max(1, min(shards, (len(recs) + 19) // 20))
    if shards == 16 and len(recs) > 4000:
        shards = 16 * ((len(recs) + 3999) // 4000)      # keep every shard file small enough for a 2 GB JVM; still 16 at a time
    t0 = time.time()
    args = ["iters", "--asts", asts, "--texts", texts_path, "--out", prefix, "--shards", shards, "--parts", parts or PARTS_ARG[part]]
    if regex:
        args += ["--with-regex", "1"]
    vh(args)
    th = time.time() - t0
    pa = parts or PARTS_ARG[part]
    x4 = "all" if ("rp" in pa and "fi" in pa) else ("rp" if "rp" in pa else "norp")
    envs = [dict(VH_RECS="%s.%d.ndjson" % (prefix, i), VH_TEXTS=texts_path, VH_PART=part, VH_EXCL=excl, VH_X4PARTS=x4) for i in range(shards)]
    rs = tlc.run_shards("TraceIter", envs)
    tlc.require_clean(rs, "TraceIter(%s)" % name)
    log("iters %s[%s]: %d records, harness %.1fs, total %.1fs (slowest shard %.1fs)" % (name, part, len(recs), th, time.time() - t0, max(r.wall for r in rs)))
    ctx.add_tlc(rs)
    stats, rejects, cerr, gaps = {}, [], [], []
    for r in rs:
        st = r.tagged("STATS")
        if len(st) != 1:
            raise ToolError("TraceIter(%s): a shard did not report STATS" % name)
        for k, v in st[0].items():
            stats[k] = stats.get(k, 0) + v
        rejects += r.tagged("REJECT")
        cerr += r.tagged("CERR")
        gaps += r.tagged("MODELGAP")
    stats["texts"] //= shards
    if stats["records"] != len(recs):
        raise ToolError("TraceIter(%s): %d records validated, %d expected" % (name, stats["records"], len(recs)))
    if gaps:
        raise ToolError("TraceIter(%s): fancy-regex and the regex crate agree with each other but not with the specification "
                        "(model gap, not a verdict): %s" % (name, json.dumps(gaps[0])[:600]))
    odd = [c for c in cerr if not (c["ek"] == "CompileError(LookBehindNotConst)" and "(?<" in c["pat"])]
    ctx.traces += stats["ok"]
    ctx.evaluations += (stats["ok"] + stats["rejected"]) * stats["texts"]
    ctx.nontrivial += stats["expected_rows"]
    ctx.cov.setdefault("spaces", {})[name + ":" + part] = dict(stats, unexpected_compile_errors=len(odd), texts_file=os.path.basename(texts_path))
    if odd:
        ctx.note("%s: %d patterns of the space did not compile, e.g. %s (%s)" % (name, len(odd), odd[0]["pat"], odd[0]["ek"]))
    if violation:
        for j in rejects:
            if part == "eh":
                what = ("pattern %s built with backtrack_limit %s: on text #%s the %s history does not cohere with the find_iter history of the same regex "
                        "(Ok pieces = RefSplit of the Ok matches; Ok replacement = first n matches replaced; needed search failed => Err; constant = closure)"
                        % (j["pat"], j.get("bl"), (j["logged_not_expected"] or ["?"])[0], (j["logged_not_expected"] or ["?", "?"])[1]))
            else:
                what = ("pattern %s [%s]: expected history %s not produced; produced %s not allowed"
                        % (j["pat"], part, json.dumps(j["expected_not_logged"])[:300], json.dumps(j["logged_not_expected"])[:300]))
            ctx.violation(what,
                          dict(kind="iters", space=name, part=part, texts=texts_path, ast=j["ast"], ng=j["ng"], bl=j.get("bl", -1), pat=j["pat"],
                               regex=regex, expected_not_logged=j["expected_not_logged"], logged_not_expected=j["logged_not_expected"]))
    try:
        with open("%s.0.ndjson" % prefix) as f:
            r = json.loads(f.readline())
            key = {"fi": "fi", "ci": "ci", "sp": "spn", "rp": "rp", "co": "cells", "x4": "fi", "c5": "rows", "eh": "sp"}[part]
            ctx.samples.append(dict(space=name, part=part, pattern=r["pat"], status=r["st"], first_histories=r.get(key, [])[:3]))
    except (OSError, ValueError):
        pass
    return dict(stats=stats, rejects=rejects, odd=odd)


def probe_witness(ctx, w, part):
    d = workdir(ctx.prop)
    tpath = os.path.join(d, "witness.texts.ndjson")
    write_ndjson(tpath, [{"t": t} for t in w["texts"]])
    sub = type(ctx)(ctx.prop, ctx.tier, ctx.seed)
    rec = {"id": 1, "ast": w["ast"], "ng": w["ng"]}
    if "toks" in w:
        rec["toks"] = w["toks"]
    res = run_iters(sub, "witness", [rec], tpath, part, excl="", violation=False, shards=1,
                    regex=(part == "x4"), parts=("fi,ci,sp,co,rows" if part == "x4" else None))
    ctx.states += sub.states
    ctx.transitions += sub.transitions
    return bool(res["rejects"]) or bool(res["odd"])
