"""Shared driver machinery: building the harness against /repo's working tree, spec-derived
exports, verdicts, replay files, evidence, known findings."""
import hashlib, json, os, random, subprocess, sys, time

from . import tlc
from .tlc import ToolError, VERIF, SPEC, WORK

HARNESS = os.path.join(VERIF, "harness")
VH = os.path.join(HARNESS, "target", "release", "vh")
GEN = os.path.join(VERIF, "gen")
EVID = os.path.join(VERIF, "evidence")
REPLAY = os.path.join(WORK, "replay")
KNOWN = os.path.join(VERIF, "known_findings.json")


def log(*a):
    print(*a, file=sys.stderr, flush=True)


def sh(cmd, **kw):
    return subprocess.run(cmd, stdout=subprocess.PIPE, stderr=subprocess.STDOUT, universal_newlines=True, **kw)


def build_harness(profile="release"):
    """cargo build of the harness (path dependency on /repo, guard cfg on).  Cargo decides what is stale,
    so this always reflects /repo's current working tree."""
    env = dict(os.environ, CARGO_NET_OFFLINE="true")
    cmd = ["cargo", "build", "--offline", "--quiet"] + (["--release"] if profile == "release" else [])
    p = sh(cmd, cwd=HARNESS, env=env)
    if p.returncode != 0:
        raise ToolError("harness build failed (exit %d):\n%s" % (p.returncode, p.stdout[-3000:]))


def vh(args, stdin=None, timeout=3600, check=True, binary=VH):
    p = subprocess.run([binary] + [str(a) for a in args], input=stdin, stdout=subprocess.PIPE, stderr=subprocess.PIPE,
                       universal_newlines=True, timeout=timeout)
    if check and p.returncode != 0:
        raise ToolError("vh %s failed (%d): %s" % (args[0], p.returncode, p.stderr[-2000:]))
    return p


# ---------------------------------------------------------------- spec-derived exports
EXPORT_DEPS = ("Text.tla", "Ast.tla", "Gram.tla", "MC_Export.tla", "RefSem.tla", "Expand.tla", "ExpandFix.tla", "Escape.tla", "Options.tla",
               "Spell.tla", "Contract.tla")


def spec_stamp(files=EXPORT_DEPS):
    h = hashlib.sha256()
    for f in files:
        with open(os.path.join(SPEC, f), "rb") as fh:
            h.update(fh.read())
    return h.hexdigest()[:16]


def export(name, what, n, prof="core", sig="sig6", timeout=1800):
    """TLC exports a spec-defined space into gen/<name>.ndjson (cached by spec hash)."""
    os.makedirs(GEN, exist_ok=True)
    path = os.path.join(GEN, name + ".ndjson")
    stamp = os.path.join(GEN, name + ".stamp")
    want = spec_stamp()
    if os.path.exists(path) and os.path.exists(stamp) and open(stamp).read().strip() == want:
        return path
    tmp = path + ".tmp%d" % os.getpid()
    r = tlc.run_tlc("MC_Export", env=dict(VH_WHAT=what, VH_OUT=tmp, VH_N=n, VH_PROF=prof, VH_SIG=sig), xmx="8g",
                    timeout=timeout, tag="export-" + name, deque=False)
    if not r.ok or not os.path.exists(tmp):
        raise ToolError("export %s failed:\n%s" % (name, "\n".join(r.out.splitlines()[-20:])))
    os.replace(tmp, path)
    with open(stamp, "w") as f:
        f.write(want)
    return path


def ctx2(ctx, name, count):
    """`count` seeded picks of (outer context, inner context, filler); TLC (MC_Export, What=ctx2) builds the patterns from Gram.tla"""
    ncx, nfill = 44, 64
    picks = [dict(i=ctx.rng.randint(1, ncx), j=ctx.rng.randint(1, ncx), f=ctx.rng.randint(1, nfill)) for _ in range(count)]
    d = workdir(ctx.prop)
    pf = os.path.join(d, name + ".picks.ndjson")
    write_ndjson(pf, picks)
    out = os.path.join(d, name + ".ctx2.ndjson")
    r = tlc.run_tlc("MC_Export", env=dict(VH_WHAT="ctx2", VH_OUT=out, VH_N=0, VH_PROF="core", VH_SIG="sig6", VH_PICKS=pf), xmx="4g", timeout=1800,
                    tag="export-ctx2", deque=False)
    if not r.ok or not os.path.exists(out):
        raise ToolError("export ctx2 failed:\n%s" % "\n".join(r.out.splitlines()[-20:]))
    return read_ndjson(out)


def pats(prof, n):
    return export("pats_%s_%d" % (prof, n), "pats", n, prof=prof)


def texts(sig, n):
    return export("texts_%s_%d" % (sig, n), "texts", n, sig=sig)


def read_ndjson(path):
    with open(path) as f:
        return [json.loads(l) for l in f if l.strip()]


def write_ndjson(path, recs):
    with open(path, "w") as f:
        for r in recs:
            f.write(json.dumps(r, separators=(",", ":")) + "\n")


def workdir(prop):
    d = os.path.join(WORK, prop)
    os.makedirs(d, exist_ok=True)
    return d


def clean_prefix(prefix):
    d = os.path.dirname(prefix)
    b = os.path.basename(prefix)
    for f in os.listdir(d):
        if f.startswith(b + "."):
            os.remove(os.path.join(d, f))


# ---------------------------------------------------------------- context of one check run
class Ctx:
    def __init__(self, prop, tier, seed, replay=None):
        self.prop = prop
        self.tier = tier
        self.seed = seed
        self.replay = replay
        self.rng = random.Random((seed * 1000003) ^ (hash(prop) & 0) ^ sum(ord(c) for c in prop))
        self.t0 = time.time()
        self.violations = []      # dicts written as replay files
        self.known_hits = []      # strings
        self.notes = []
        self.states = 0
        self.transitions = 0
        self.traces = 0
        self.evaluations = 0
        self.nontrivial = 0
        self.samples = []
        self.cov = {}
        self.exhaustive = None
        self.assumptions = []
        self.rule = ""

    @property
    def quick(self):
        return self.tier == "quick"

    def add_tlc(self, results):
        for r in results:
            self.states += r.distinct
            self.transitions += r.generated

    def violation(self, what, detail):
        self.violations.append(dict(what=what, detail=detail))

    def note(self, s):
        self.notes.append(s)
        log("note:", s)


# ---------------------------------------------------------------- known findings
def load_known():
    if not os.path.exists(KNOWN):
        return dict(findings=[], fixed=[])
    with open(KNOWN) as f:
        return json.load(f)


def open_findings(prop):
    return [f for f in load_known().get("findings", []) if prop in f.get("properties", []) and f.get("status", "open") == "open"]


def excl_classes(prop):
    """names of the spec exclusion classes (Ast!Excluded_<id>) active for this property"""
    return sorted({f["id"] for f in open_findings(prop) if f.get("class")})


# ---------------------------------------------------------------- finishing
def finish(ctx, level):
    """Writes replay files + evidence, prints verdict lines, returns the exit code."""
    os.makedirs(REPLAY, exist_ok=True)
    os.makedirs(EVID, exist_ok=True)
    for k in ctx.known_hits:
        print("KNOWN-FINDING: property=%s %s" % (ctx.prop, k))
    paths = []
    for v in ctx.violations:
        blob = json.dumps(v, sort_keys=True)
        h = hashlib.sha256(blob.encode()).hexdigest()[:12]
        path = os.path.join(REPLAY, "%s-%s.json" % (ctx.prop, h))
        with open(path, "w") as f:
            json.dump(dict(property=ctx.prop, tier=ctx.tier, seed=ctx.seed, **v), f, indent=1, sort_keys=True)
        paths.append(path)
    cov = dict(states=ctx.states, transitions=ctx.transitions, traces_validated_against_impl=ctx.traces,
               samples=ctx.samples[:8] or ["(none)"], evaluations=ctx.evaluations, distinct_nontrivial=ctx.nontrivial,
               rule=ctx.rule)
    if ctx.exhaustive is not None:
        cov["exhaustive"] = bool(ctx.exhaustive)
    cov.update(ctx.cov)
    ev = dict(property_id=ctx.prop, tier=ctx.tier, seed=ctx.seed, level=level, coverage=cov,
              assumptions=ctx.assumptions, wall_s=round(time.time() - ctx.t0, 2), violations=len(ctx.violations),
              known_findings_reported=ctx.known_hits, notes=ctx.notes)
    with open(os.path.join(EVID, ctx.prop + ".json"), "w") as f:
        json.dump(ev, f, indent=1, sort_keys=True)
    for p, v in list(zip(paths, ctx.violations))[:20]:
        print("VIOLATION property=%s replay=%s" % (ctx.prop, p))
        log("  ", v["what"])
    if len(paths) > 20:
        log("  ... %d more violations (replay files written)" % (len(paths) - 20))
    if ctx.violations:
        return 1
    print("OK property=%s tier=%s seed=%d states=%d traces=%d evaluations=%d wall=%.1fs" % (
        ctx.prop, ctx.tier, ctx.seed, ctx.states, ctx.traces, ctx.evaluations, time.time() - ctx.t0))
    return 0
