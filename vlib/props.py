"""One function per property: builds the spaces for the tier, runs the model-checking instance and
the conformance pipelines, probes known-finding witnesses.  Returns the level category."""
import json, os

from . import common, randgen, rowsp, tlc
from .common import ToolError, log, pats, read_ndjson, texts

CHECKS = {}


def check(pid):
    def deco(f):
        CHECKS[pid] = f
        return f
    return deco


def setup():
    """setup_cmd: build the harness, parse every module, pre-generate the exports."""
    common.build_harness()
    for m in sorted(os.listdir(common.SPEC)):
        if m.endswith(".tla"):
            p = common.sh(["tla-sany", m], cwd=common.SPEC)
            if p.returncode != 0 or "rror" in p.stdout.replace("Semantic errors: 0", ""):
                if "*** Errors" in p.stdout or p.returncode != 0:
                    print(p.stdout[-2000:])
                    return 2
    for prof, n in (("core", 1), ("core", 2), ("core", 3), ("core", 4), ("ctxfill", 0)):
        pats(prof, n)
    texts("sig6", 3)
    print("setup ok")
    return 0


def renumber_ids(recs, start=1):
    return [dict(r, id=start + i) for i, r in enumerate(recs)]


def sample(ctx, recs, k):
    if len(recs) <= k:
        return list(recs)
    idx = sorted(ctx.rng.sample(range(len(recs)), k))
    return [recs[i] for i in idx]


def core_space(ctx):
    """pattern spaces of C01/C02 for the tier: list of (name, recs, texts_path)"""
    t3 = texts("sig6", 3)
    small = []
    for n in (1, 2, 3):
        small += read_ndjson(pats("core", n))
    cf = read_ndjson(pats("ctxfill", 0))
    p4 = read_ndjson(pats("core", 4))
    if ctx.quick:
        spaces = [("pat123", renumber_ids(small), t3), ("ctxfill", cf, t3),
                  ("pat4sample", renumber_ids(sample(ctx, p4, 1500)), t3),
                  ("random", randgen.random_pats(ctx.rng, "core", 800, depth=3), t3)]
        ctx.exhaustive = False
    else:
        t4 = texts("sig6", 4)
        spaces = [("pat123", renumber_ids(small), t3), ("ctxfill", cf, t3), ("pat4", p4, t3),
                  ("random", randgen.random_pats(ctx.rng, "core", 20000, depth=4, max_nodes=16), t3),
                  ("pat123_L4", renumber_ids(small), t4), ("ctxfill_L4", cf, t4)]
        ctx.exhaustive = False
    return spaces


def probe_known(ctx, mode):
    for f in common.open_findings(ctx.prop):
        for w in f.get("witnesses", []):
            if w.get("kind") != "rows" or ctx.prop not in w.get("properties", f["properties"]):
                continue
            if rowsp.probe_witness(ctx, f, w, mode):
                ctx.known_hits.append("%s %s" % (f["id"], w["what"]))
            else:
                ctx.note("known finding %s: witness %s no longer fails" % (f["id"], w.get("pat", "")))


ROWS_ASSUME = [
    "RefSem.tla is the intended meaning of patterns (Perl/Oniguruma ordered backtracking); it is independent of the engine",
    "the harness printer AST->pattern is faithful (cross-checked by re-parsing with the real parser, see printer_roundtrip)",
    "TLC evaluates the specification correctly; bounds: node bound of the exhaustive grammar, text length bound",
]


@check("C01")
def c01(ctx):
    excl = "".join(common.excl_classes("C01"))
    ctx.rule = ("cells = pattern x text x char-boundary offset; patterns: Gram!P exhaustive up to the node bound (exported by TLC), "
                "Contexts x Fillers, seeded random ASTs; texts: all strings over {a,b,c,e-acute,LF,-} up to the length bound; "
                "non-trivial = cells in which RefSem!Search has a match (counted by TLC); overall span compared")
    for name, recs, tpath in core_space(ctx):
        rowsp.run_rows(ctx, name, recs, tpath, "span", excl)
    probe_known(ctx, "span")
    ctx.assumptions = ROWS_ASSUME
    return "model_checking"


@check("C02")
def c02(ctx):
    excl = "".join(common.excl_classes("C02"))
    ctx.rule = ("as C01 but every capture group of every match is compared (rows carry all groups); "
                "references only to groups closed earlier; non-trivial = matching cells")
    for name, recs, tpath in core_space(ctx):
        rowsp.run_rows(ctx, name, recs, tpath, "caps", excl)
    probe_known(ctx, "caps")
    ctx.assumptions = ROWS_ASSUME
    return "model_checking"


@check("C15")
def c15(ctx):
    excl = "".join(common.excl_classes("C15"))
    ctx.rule = ("cells as C01; patterns: conditional grammar Gram!ProfCond exhaustive up to the node bound ((?(N)..), (?(N)), "
                "(?(cond)yes|no) with look-around and consuming conditions), conditional fillers x contexts (inside atomic groups, "
                "loops, look-arounds, other conditions), seeded random; all groups compared; non-trivial = matching cells")
    t3 = texts("sig6", 3)
    small = []
    for n in (1, 2, 3, 4):
        small += read_ndjson(pats("cond", n))
    cc = read_ndjson(pats("condctx", 0))
    if ctx.quick:
        spaces = [("cond1234", renumber_ids(small), t3), ("condctx", cc, t3),
                  ("random", randgen.random_pats(ctx.rng, "cond", 1200, depth=3), t3)]
    else:
        t4 = texts("sig6", 4)
        spaces = [("cond1234", renumber_ids(small), t3), ("condctx", cc, t3),
                  ("random", randgen.random_pats(ctx.rng, "cond", 30000, depth=4, max_nodes=18), t3),
                  ("condctx_L4", cc, t4), ("cond123_L4", renumber_ids([r for r in small]), t4)]
    ctx.exhaustive = False
    for name, recs, tpath in spaces:
        rowsp.run_rows(ctx, name, recs, tpath, "caps", excl)
    probe_known(ctx, "caps")
    ctx.assumptions = ROWS_ASSUME
    return "model_checking"


def inject_export(prof, n):
    return common.export("inject_%s_%d" % (prof, n), "inject", n, prof=prof)


@check("C03")
def c03(ctx):
    excl = "".join(common.excl_classes("C03"))
    ctx.rule = ("records = (base pattern, injected pattern): every single-site injection of (?=) (before/after every "
                "sub-expression, exported by TLC from Gram!Injections) and seeded multi-site injections; the injected "
                "pattern's rows over all texts x offsets must equal RefSem!Search of the BASE pattern (all groups); "
                "the spec-level lemma Search(injected)=Search(base) is checked by TLC on the same cells; "
                "non-trivial = matching cells")
    t3 = texts("sig6", 3)
    single = []
    for n in (1, 2, 3):
        single += read_ndjson(inject_export("core", n))
    cf = read_ndjson(inject_export("ctxfill", 0))
    bases = read_ndjson(pats("ctxfill", 0)) + read_ndjson(pats("core", 3)) + read_ndjson(pats("core", 4))
    def multi(k):
        out = []
        for b in sample(ctx, bases, k):
            out.append(dict(ast=randgen.inject_random(ctx.rng, b["ast"], ctx.rng.randint(2, 4)), base=b["ast"], ng=b["ng"]))
        return renumber_ids(out)
    if ctx.quick:
        spaces = [("inj_pat123", renumber_ids(sample(ctx, single, 2500)), t3), ("inj_ctxfill", renumber_ids(sample(ctx, cf, 2500)), t3),
                  ("inj_multi", multi(800), t3)]
    else:
        p4 = read_ndjson(inject_export("core", 4))
        spaces = [("inj_pat123", renumber_ids(single), t3), ("inj_ctxfill", cf, t3), ("inj_pat4", renumber_ids(sample(ctx, p4, 40000)), t3),
                  ("inj_multi", multi(10000), t3)]
    ctx.exhaustive = False
    for name, recs, tpath in spaces:
        rowsp.run_rows(ctx, name, recs, tpath, "caps", excl, lemma=True)
    probe_known(ctx, "caps")
    ctx.assumptions = ROWS_ASSUME + ["base patterns themselves are compared with RefSem by C01/C02"]
    return "model_checking"


def replay(ctx, path):
    with open(path) as f:
        v = json.load(f)
    d = v["detail"]
    if d.get("kind") == "rows":
        sub = common.Ctx(ctx.prop, ctx.tier, ctx.seed)
        rec = {"id": 1, "ast": d["ast"], "ng": d["ng"]}
        if d.get("base") and d["base"] != d["ast"]:
            rec["base"] = d["base"]
        res = rowsp.run_rows(sub, "replay", [rec], d["texts"], d["mode"], excl="", violation=True, shards=1)
        print(json.dumps(dict(pattern=d["pat"], rejected=bool(res["rejects"]), rejects=res["rejects"]), indent=1))
        if res["rejects"]:
            print("VIOLATION property=%s replay=%s" % (ctx.prop, path))
            return 1
        return 0
    raise ToolError("unknown replay kind")
