"""One function per property: builds the spaces for the tier, runs the model-checking instance and
the conformance pipelines, probes known-finding witnesses.  Returns the level category."""
import json, os

from . import common, compilep, iterp, randgen, rowsp, tlc, vmp
from .common import ToolError, log, pats, read_ndjson, texts

CHECKS = {}


def check(pid):
    def deco(f):
        CHECKS[pid] = f
        return f
    return deco


def setup():
    """setup_cmd: build the harness, parse every module, pre-generate the exports."""
    common.build_harness()
    for m in sorted(os.listdir(common.SPEC)):
        if m.endswith(".tla"):
            p = common.sh(["tla-sany", m], cwd=common.SPEC)
            if p.returncode != 0 or "rror" in p.stdout.replace("Semantic errors: 0", ""):
                if "*** Errors" in p.stdout or p.returncode != 0:
                    print(p.stdout[-2000:])
                    return 2
    from concurrent.futures import ThreadPoolExecutor
    jobs = []
    for prof, ns in (("core", (1, 2, 3, 4)), ("cond", (1, 2, 3, 4)), ("iter", (1, 2, 3)), ("wild", (1, 2, 3)), ("plain", (1, 2, 3)),
                     ("case", (1, 2, 3)), ("lb", (1, 2, 3, 4)), ("ctxfill", (0,)), ("condctx", (0,)), ("wildshapes", (0,)), ("plainctx", (0,))):
        for n in ns:
            jobs.append((pats, (prof, n)))
    for sig, n in (("sig6", 2), ("sig6", 3), ("wide", 2), ("wide", 3), ("case4", 3), ("ab", 3)):
        jobs.append((texts, (sig, n)))
    for n in (1, 2, 3):
        jobs.append((inject_export, ("core", n)))
        jobs.append((common.export, ("spell_core_%d" % n, "spell", n, "core")))
    jobs += [(inject_export, ("ctxfill", 0)), (common.export, ("expand_fixtures", "fixtures", 0)), (common.export, ("templates_3", "templates", 3)),
             (common.export, ("escapes_2", "escapes", 2)), (common.export, ("sizefix", "sizefix", 0)), (common.export, ("spell_ctxfill_0", "spell", 0, "ctxfill")),
             (common.export, ("spell_case_3", "spell", 3, "case")), (common.export, ("vocab_1", "vocab", 1)), (common.export, ("vocab_2", "vocab", 2)),
             (common.export, ("amp", "amp", 0)), (common.export, ("stress", "stress", 0))]
    with ThreadPoolExecutor(max_workers=8) as ex:
        for f in [ex.submit(fn, *args) for fn, args in jobs]:
            f.result()
    common.build_harness("debug")
    print("setup ok")
    return 0


def renumber_ids(recs, start=1):
    return [dict(r, id=start + i) for i, r in enumerate(recs)]


def sample(ctx, recs, k):
    if len(recs) <= k:
        return list(recs)
    idx = sorted(ctx.rng.sample(range(len(recs)), k))
    return [recs[i] for i in idx]


def hybrid_model(ctx, name, files, k=None, textsig=("sig6", 2)):
    """MC_Hybrid on Compile.tla programs of the given exported spaces (design level), answers compared with RefSem"""
    recs = []
    for f in files:
        recs += read_ndjson(f)
    if k is not None:
        recs = sample(ctx, recs, k)
    path = os.path.join(common.workdir(ctx.prop), "hybrid_%s.pats.ndjson" % name)
    common.write_ndjson(path, renumber_ids(recs))
    return vmp.run_hybrid(ctx, "model_" + name, path, texts(*textsig), use="model", sem=True)


def core_space(ctx):
    """pattern spaces of C01/C02 for the tier: list of (name, recs, texts_path)"""
    t3 = texts("sig6", 3)
    small = []
    for n in (1, 2, 3):
        small += read_ndjson(pats("core", n))
    cf = read_ndjson(pats("ctxfill", 0))
    p4 = read_ndjson(pats("core", 4))
    cc = read_ndjson(pats("condctx", 0))      # conditionals (groups in conditions and branches) belong to C01/C02 as much as to C15
    if ctx.quick:
        spaces = [("pat123", renumber_ids(small), t3), ("ctxfill", cf, t3), ("condctx", cc, t3),
                  ("ctx2", common.ctx2(ctx, "ctx2", 700), t3),      # two-level nesting of the contexts (seeded picks, built by Gram.tla)
                  ("pat4sample", renumber_ids(sample(ctx, p4, 1500)), t3),
                  ("random", randgen.random_pats(ctx.rng, "core", 800, depth=3), t3)]
        ctx.exhaustive = False
    else:
        t4 = texts("sig6", 4)
        spaces = [("pat123", renumber_ids(small), t3), ("ctxfill", cf, t3), ("condctx", cc, t3), ("pat4", p4, t3),
                  ("ctx2", common.ctx2(ctx, "ctx2", 12000), t3),
                  ("random", randgen.random_pats(ctx.rng, "core", 20000, depth=4, max_nodes=16), t3),
                  ("pat123_L4", renumber_ids(small), t4), ("ctxfill_L4", cf, t4)]
        ctx.exhaustive = False
    return spaces


def probe_known(ctx, mode, kind="rows"):
    for f in common.open_findings(ctx.prop):
        for w in f.get("witnesses", []):
            if w.get("kind", "rows") != "rows" or ctx.prop not in w.get("properties", f["properties"]):
                continue
            failed = rowsp.probe_witness(ctx, f, w, mode) if kind == "rows" else iterp.probe_witness(ctx, w, mode)
            if failed:
                ctx.known_hits.append("%s %s" % (f["id"], w["what"]))
            else:
                ctx.note("known finding %s: witness %s no longer fails" % (f["id"], w.get("pat", "")))


ROWS_ASSUME = [
    "RefSem.tla is the intended meaning of patterns (Perl/Oniguruma ordered backtracking); it is independent of the engine",
    "the harness printer AST->pattern is faithful (cross-checked by re-parsing with the real parser, see printer_roundtrip)",
    "TLC evaluates the specification correctly; bounds: node bound of the exhaustive grammar, text length bound",
]


@check("C01")
def c01(ctx):
    excl = "".join(common.excl_classes("C01"))
    ctx.rule = ("cells = pattern x text x char-boundary offset; patterns: Gram!P exhaustive up to the node bound (exported by TLC), "
                "Contexts x Fillers, seeded random ASTs; texts: all strings over {a,b,c,e-acute,LF,-} up to the length bound; "
                "non-trivial = cells in which RefSem!Search has a match (counted by TLC); overall span compared")
    hybrid_model(ctx, "pat123", [pats("core", 1), pats("core", 2), pats("core", 3)], None if ctx.quick else 20000)
    mc_pipeline(ctx, 1, 400)
    for name, recs, tpath in core_space(ctx):
        rowsp.run_rows(ctx, name, recs, tpath, "span", excl)
    cf = [r for r in read_ndjson(pats("ctxfill", 0))]
    vmp.run_tracevm(ctx, "ctxfill", vmp.with_cells(ctx.rng, renumber_ids(sample(ctx, cf, 500 if ctx.quick else 1801)), texts("sig6", 3), 3 if ctx.quick else 10), texts("sig6", 3))
    probe_known(ctx, "span")
    ctx.assumptions = ROWS_ASSUME
    return "model_checking"


@check("C02")
def c02(ctx):
    excl = "".join(common.excl_classes("C02"))
    ctx.rule = ("as C01 but every capture group of every match is compared (rows carry all groups); "
                "references only to groups closed earlier; non-trivial = matching cells")
    for name, recs, tpath in core_space(ctx):
        rowsp.run_rows(ctx, name, recs, tpath, "caps", excl)
    probe_known(ctx, "caps")
    ctx.assumptions = ROWS_ASSUME
    return "model_checking"


def name_all(e):
    """the all-named twin of a pattern: every group named x1.., every reference by name"""
    if isinstance(e, dict):
        out = {k: name_all(v) for k, v in e.items()}
        if out.get("k") in ("grp", "bref", "bex"):
            out["named"] = True
        return out
    if isinstance(e, list):
        return [name_all(x) for x in e]
    return e


def run_simple(ctx, module, name, cmd, recs, texts_path, shards=16, what="records"):
    """harness command -> shard files -> TLC module with STATS/REJECT/CERR emits"""
    d = common.workdir(ctx.prop)
    asts = os.path.join(d, name + ".asts.ndjson")
    common.write_ndjson(asts, recs)
    prefix = os.path.join(d, name + "." + cmd)
    common.clean_prefix(prefix)
    shards = max(1, min(shards, (len(recs) + 39) // 40))
    args = [cmd, "--asts", asts, "--out", prefix, "--shards", shards]
    if texts_path:
        args += ["--texts", texts_path]
    common.vh(args)
    rs = tlc.run_shards(module, [dict(VH_RECS="%s.%d.ndjson" % (prefix, i), VH_TEXTS=texts_path or "") for i in range(shards)])
    tlc.require_clean(rs, "%s(%s)" % (module, name))
    ctx.add_tlc(rs)
    stats, rejects, cerr = {}, [], []
    for r in rs:
        for k, v in r.tagged("STATS")[0].items():
            stats[k] = stats.get(k, 0) + v
        rejects += r.tagged("REJECT")
        cerr += r.tagged("CERR")
        if r.tagged("MIRRORUNSOUND"):
            ctx.violation("model Analyze.tla: mirrored size facts are unsound for %s" % r.tagged("MIRRORUNSOUND")[0]["pat"], dict(kind="mc", got=r.tagged("MIRRORUNSOUND")[0]))
        if r.tagged("MISALIGNED"):
            raise ToolError("%s(%s): facts and parsed tree are not aligned: %s" % (module, name, r.tagged("MISALIGNED")[0]))
        if r.tagged("LEMMAFAIL"):
            raise ToolError("%s(%s): a spec-level lemma was refuted by TLC: %s" % (module, name, r.tagged("LEMMAFAIL")[0]))
    if stats["records"] != len(recs):
        raise ToolError("%s(%s): %d records validated, %d expected" % (module, name, stats["records"], len(recs)))
    ctx.cov.setdefault("spaces", {})[name] = stats
    ctx.traces += stats["ok"]
    with open(prefix + ".0.ndjson") as f:
        line = f.readline()
        if line:
            r = json.loads(line)
            ctx.samples.append({k: (v if not isinstance(v, list) else v[:3]) for k, v in r.items() if k not in ("ast",)})
    return stats, rejects, cerr


@check("C16")
def c16(ctx):
    ctx.rule = ("records = per pattern captures_len and capture_names, per (pattern, text) with a match: Captures::len, iter(), get(0..len+1), name(n) for every "
                "name and for an unknown name; expected counts and names are computed by TLC from the AST (numbering = opening-parenthesis order); patterns: "
                "unrestricted grammar and contexts x fillers, each also as its all-named twin, so that delegated and VM-compiled engines are both reached; "
                "non-trivial = matches inspected")
    t2 = texts("sig6", 2)
    wild = []
    for n in (1, 2, 3):
        wild += read_ndjson(pats("wild", n))
    cf = read_ndjson(pats("ctxfill", 0))
    plain = read_ndjson(pats("plain", 3))
    def twins(recs):
        out = []
        for r in recs:
            out.append(r)
            if r["ng"] > 0:
                out.append(dict(r, ast=name_all(r["ast"])))
        return renumber_ids(out)
    if ctx.quick:
        spaces = [("wild123", twins(sample(ctx, wild, 700))), ("ctxfill", twins(sample(ctx, cf, 900))), ("plain3", twins(sample(ctx, plain, 600))),
                  ("plainctx", twins(read_ndjson(pats("plainctx", 0)))),
                  ("random_wild", randgen.random_pats(ctx.rng, "wild", 800, depth=3))]
    else:
        spaces = [("wild123", twins(wild)), ("ctxfill", twins(cf)), ("plain3", twins(plain)), ("plainctx", twins(read_ndjson(pats("plainctx", 0)))), ("wild4", twins(sample(ctx, read_ndjson(pats("wild", 4)), 20000))),
                  ("random_wild", randgen.random_pats(ctx.rng, "wild", 20000, depth=4, max_nodes=16))]
    for name, recs in spaces:
        stats, rejects, cerr = run_simple(ctx, "TraceMeta", name, "meta", recs, t2)
        ctx.evaluations += stats["matches"] + stats["records"]
        ctx.nontrivial += stats["matches"]
        for j in rejects:
            ctx.violation("pattern %s: group metadata inconsistent (captures_len=%s names=%s bad match=%s)" % (j["pat"], j["clen"], j["names"], j["bad_match"]),
                          dict(kind="meta", ast=j["ast"], ng=j["ng"], pat=j["pat"], texts=t2, got=j))
    # known findings with a metadata witness: probed on every run, reported as KNOWN-FINDING while they still reproduce
    for f in common.open_findings("C16"):
        for w in f.get("witnesses", []):
            if w.get("kind") != "meta":
                continue
            tp = os.path.join(common.workdir("C16"), "witness.texts.ndjson")
            common.write_ndjson(tp, [{"t": t} for t in w["texts"]])
            sub = common.Ctx(ctx.prop, ctx.tier, ctx.seed)
            st, rej, _ = run_simple(sub, "TraceMeta", "witness_" + f["id"], "meta", [dict(id=1, ast=w["ast"], ng=w["ng"])], tp, shards=1)
            if rej:
                ctx.known_hits.append("%s %s" % (f["id"], w["what"]))
            else:
                ctx.note("known finding %s: witness %s no longer fails" % (f["id"], w["pat"]))
    ctx.exhaustive = False
    ctx.assumptions = ["group numbering = opening-parenthesis order is part of Ast.tla (WellNumbered) and exported spaces satisfy it"]
    return "model_checking"


@check("C17")
def c17(ctx):
    ctx.rule = ("records = for every string s of the space (exported by TLC): escape(s) and its Cow variant; the escaped string compiled alone and inside 5 "
                "host patterns (group + back-reference, look-ahead, look-behind, lazy prefix + VM suffix, atomic group) and searched in 6 haystacks derived from s; "
                "TLC recomputes escape, the borrow rule and every span from RefSem on the intended AST (literal sequence), and checks the lemma "
                "Search(LitSeq(s)) = str::find; alphabet: the 15 specials, letter, digit, space, LF, 2/3/4-byte characters, '-', '&'; non-trivial = strings needing an escape")
    n = 2 if ctx.quick else 3
    recs = read_ndjson(common.export("escapes_%d" % n, "escapes", n))
    alpha = ["\\", ".", "+", "*", "?", "(", ")", "|", "[", "]", "{", "}", "^", "$", "#", "a", "1", "S", "N", "E", "T", "Q", "D", "&"]
    hosts = recs[0]["hosts"]
    def hay(s):
        return [s, ["a"] + s, s + s, ["a"] + s + ["E"] + s + ["a"], s[1:] + s, ["a", "E"]]
    rnd = []
    for i in range(4000 if ctx.quick else 60000):
        s = [ctx.rng.choice(alpha) for _ in range(ctx.rng.randint(n + 1, 7))]
        rnd.append(dict(id=i + 1, s=s, hay=hay(s), hosts=hosts))
    for name, rs_ in (("exhaustive_le%d" % n, recs), ("random", rnd)):
        stats, rejects, cerr = run_simple(ctx, "TraceEscape", name, "escape", rs_, None)
        ctx.evaluations += stats["expected_rows"]
        ctx.nontrivial += stats["needing_escape"]
        for j in rejects:
            ctx.violation("escape(%s): escaped=%s expected=%s borrowed=%s; expected-not-found %s; found-not-expected %s (row = host, haystack, status, start, end)"
                          % ("".join(j["s"]), "".join(j["esc"]), "".join(j["expected_esc"]), j["borrowed"], j["expected_not_logged"], j["logged_not_expected"]),
                          dict(kind="escape", s=j["s"], got=j))
    ctx.exhaustive = True
    ctx.cov["exhaustive_note"] = "all strings up to length %d over the 24-symbol alphabet; longer strings sampled; the haystack derivation of the random part is repeated in the driver" % n
    ctx.assumptions = ["Escape.tla: set of special characters and hosts; RefSem for the meaning of the hosts"]
    return "model_checking"


@check("C13")
def c13(ctx):
    excl = "".join(common.excl_classes("C13"))
    ctx.rule = ("facts records = for every pattern the per-node analysis facts (min_size, const_size, hard) read through the hook, the tree the real parser built "
                "and the outcome of Regex::new; TLC enumerates, for every node, all lengths with which it can match over all texts x start positions x "
                "assignments of the groups it refers to (RefSem) and checks soundness of the REAL facts, the look-behind compile decision "
                "(accepted => one length per arm; two witnessed lengths => LookBehindNotConst) and the soundness of the mirror Analyze.tla; "
                "behaviour rows = accepted look-behinds on texts with 1-4 byte characters at every offset; non-trivial = nodes checked / matching cells")
    tw = texts("wide", 3)
    tab = texts("ab", 3)
    lb = []
    for n in (1, 2, 3):
        lb += read_ndjson(pats("lb", n))
    lb4 = read_ndjson(pats("lb", 4))
    core3 = read_ndjson(pats("core", 3))
    cond = read_ndjson(pats("cond", 3)) + read_ndjson(pats("cond", 4))
    if ctx.quick:
        fspaces = [("lb123", renumber_ids(lb)), ("lb4s", renumber_ids(sample(ctx, lb4, 500))), ("core3s", renumber_ids(sample(ctx, core3, 400))),
                   ("conds", renumber_ids(sample(ctx, cond, 400))), ("random_wild", randgen.random_pats(ctx.rng, "wildlb", 500, depth=3))]
        rspaces = [("lb123", renumber_ids(lb)), ("lb4s", renumber_ids(sample(ctx, lb4, 700)))]
    else:
        fspaces = [("lb123", renumber_ids(lb)), ("lb4", lb4), ("core3", core3), ("cond", renumber_ids(cond)),
                   ("random_wild", randgen.random_pats(ctx.rng, "wildlb", 6000, depth=4, max_nodes=11))]
        rspaces = [("lb123", renumber_ids(lb)), ("lb4", lb4)]
    for name, recs in fspaces:
        stats, rejects, cerr = run_simple(ctx, "TraceFacts", name, "facts", recs, tab)
        ctx.evaluations += stats["nodes"]
        ctx.nontrivial += stats["nodes"]
        ctx.cov.setdefault("spec_drift", {})[name] = "%d of %d nodes: real facts differ from the mirror Analyze.tla (informational)" % (stats["drift_nodes"], stats["nodes"])
        for j in rejects:
            ctx.violation("pattern %s: %s at node %s: facts [min,const,hard,g0,g1]=%s, witnessed lengths %s (compile: %s %s)"
                          % (j["pat"], j["what"], json.dumps(j["node"]), j["facts"], j["witnessed_lengths"], j["st"], j["ek"]),
                          dict(kind="facts", ast=j["ast"], ng=j["ng"], pat=j["pat"], texts=tab, got=j))
    hybrid_model(ctx, "lb", [pats("lb", 1), pats("lb", 2), pats("lb", 3)] + ([] if ctx.quick else [pats("lb", 4)]), None, textsig=("wide", 2))
    for name, recs in rspaces:
        rowsp.run_rows(ctx, "rows_" + name, recs, tw, "caps", excl)
    probe_known(ctx, "caps")
    ctx.exhaustive = False
    ctx.assumptions = ROWS_ASSUME + ["lengths are witnessed over texts over {a,b} up to length 3 (soundness can only be refuted, not proved, by enumeration)",
                                     "nodes referring to more than two groups are evaluated with those groups unset only"]
    return "model_checking"


@check("C14")
def c14(ctx):
    ctx.rule = ("case records = one pattern built four ways (builder case_insensitive(true), (?i) prefix, builder without option, case_insensitive(false)) and "
                "run over all texts over {a,A,b,B} x offsets, all groups; expected by TLC: Search(ApplyCasei(P)) for the first two, Search(P) for the others; "
                "patterns: mixed-case grammar with (?i:..) and (?-i:..) nodes, plain and fancy (look-arounds, atomic groups, back-references), exhaustive to the "
                "node bound + random; size records = delegate_size_limit(100) and default on 2 pieces x 6 hosts; non-trivial = matching cells")
    tc = texts("case4", 3)
    small = []
    for n in (1, 2, 3):
        small += read_ndjson(pats("case", n))
    size = read_ndjson(common.export("sizefix", "sizefix", 0))
    if ctx.quick:
        spaces = [("case123", size + renumber_ids(sample(ctx, small, 1400))), ("random", randgen.random_pats(ctx.rng, "casei", 600, depth=3))]
    else:
        spaces = [("case123", size + renumber_ids(small)), ("case4", renumber_ids(sample(ctx, read_ndjson(pats("case", 4)), 12000))),
                  ("random", randgen.random_pats(ctx.rng, "casei", 10000, depth=4, max_nodes=16))]
    excl = "".join(common.excl_classes("C14"))
    nvac = None
    for name, recs in spaces:
        os.environ["VH_EXCL"] = excl
        stats, rejects, cerr = run_simple(ctx, "TraceOpts", name, "opts", recs, tc)
        ctx.evaluations += stats["matching_cells"]
        ctx.nontrivial += stats["matching_cells"]
        if name == "case123":
            nvac = stats["vacuous_size_fixtures"]
        for j in rejects:
            ctx.violation("pattern %s: build %s differs from the specification: %s" % (j["pat"], j["what"], j["got"]),
                          dict(kind="opts", ast=j["ast"], ng=j["ng"], pat=j["pat"], got=j))
    if nvac:
        raise ToolError("size-limit fixture is vacuous: the tiny limit does not reject the piece alone")
    # backtrack_limit(L) as documented: a search that needs B backtracks succeeds iff L >= B (TraceLimits runs VM.tla on the real program for
    # every limit; the same machinery as C07 on a sample of the contexts x fillers)
    cf = read_ndjson(pats("ctxfill", 0))
    t3 = texts("sig6", 3)
    vmp.run_limits(ctx, "opts_limits", vmp.with_cells(ctx.rng, renumber_ids(sample(ctx, cf, 200 if ctx.quick else 1200)), t3, 3 if ctx.quick else 6), t3)
    ctx.exhaustive = False
    ctx.assumptions = ["Options.tla: case_insensitive(true) == (?i) prefix; a host is rejected under a size limit iff its big delegated piece alone is"]
    return "model_checking"


@check("C18")
def c18(ctx):
    excl = "".join(common.excl_classes("C18"))
    ctx.rule = ("model: Conc.tla, all interleavings of N threads x 2 calls at VM-instruction granularity with the delegate's cache pool as three actions; "
                "binding: static Send+Sync+Clone assertion (separate crate; a compile failure there is the violation); stress: T threads (half on a shared "
                "&Regex, half on clones) start behind a barrier and each runs every (pattern, text, offset) cell R times in its own seeded order; the SET of "
                "all results any thread obtained is validated by TLC against RefSem (a single wrong / torn / cross-talked result is a row the spec does not "
                "allow); non-trivial = matching cells; schedules of the real code are sampled, not enumerated")
    # 1. static assertion + stress binary
    p = common.sh(["cargo", "build", "--offline", "--release", "--quiet", "-p", "vhconc"], cwd=common.HARNESS, env=dict(os.environ, CARGO_NET_OFFLINE="true"))
    if p.returncode != 0:
        if any(w in p.stdout for w in ("Send", "Sync", "Clone", "cannot be shared between threads", "cannot be sent between threads")) and "assert_send_sync_clone" in p.stdout:
            ctx.violation("fancy_regex::Regex is no longer Send + Sync + Clone (static assertion does not compile)", dict(kind="static", rustc=p.stdout[-3000:]))
            return "model_checking"
        raise ToolError("vhconc build failed:\n" + p.stdout[-3000:])
    # 2. the model
    base = "SPECIFICATION Spec\nCONSTANTS NThreads = %d  BrokenPool = %s  SharedSlots = %s\nINVARIANT ResultsSequential\nINVARIANT CacheExclusive\nINVARIANT NoDeadlock\nCHECK_DEADLOCK FALSE\n"
    r = tlc.run_mc(ctx, "Conc", base % (2, "FALSE", "FALSE"), name="MC_Conc2", workers=8, coverage=False)
    mc_violation(ctx, r, "MC_Conc(2 threads)")
    ctx.cov["mc_conc"] = dict(threads=2, distinct_states=r.distinct, generated=r.generated)
    if not ctx.quick:
        r3 = tlc.run_mc(ctx, "Conc", base % (3, "FALSE", "FALSE"), name="MC_Conc3", workers=16, xmx="24g", coverage=False)
        mc_violation(ctx, r3, "MC_Conc(3 threads)")
        ctx.cov["mc_conc3"] = dict(threads=3, distinct_states=r3.distinct, generated=r3.generated)
    for nm, bp, ss, inv in (("broken_pool", "TRUE", "FALSE", "CacheExclusive"), ("shared_slots", "FALSE", "TRUE", "ResultsSequential")):
        neg = tlc.run_mc(None, "Conc", base % (2, bp, ss), name="MC_Conc_" + nm, workers=4, coverage=False)
        if neg.violated != inv:
            raise ToolError("negative control %s: expected TLC to refute %s, got %s" % (nm, inv, neg.violated))
        ctx.cov.setdefault("negative_controls", {})[nm] = "TLC refutes " + inv
    # 3. stress
    t2 = texts("sig6", 2)
    corpus = sample(ctx, read_ndjson(pats("ctxfill", 0)), 150 if ctx.quick else 600) + sample(ctx, read_ndjson(pats("plain", 3)), 60 if ctx.quick else 300) \
        + sample(ctx, read_ndjson(pats("condctx", 0)), 40 if ctx.quick else 200) \
        + sample(ctx, [r for n in (1, 2, 3) for r in read_ndjson(pats("iter", n)) if '"cont"' in json.dumps(r["ast"])], 60 if ctx.quick else 300)   # \\G: depends on the search offset
    corpus = renumber_ids(corpus)
    d = common.workdir("C18")
    af = os.path.join(d, "corpus.asts.ndjson")
    common.write_ndjson(af, corpus)
    rp, rt = os.path.join(d, "corpus.raw.ndjson"), os.path.join(d, "texts.raw.ndjson")
    common.vh(["raw", "--asts", af, "--texts", t2, "--out-pats", rp, "--out-texts", rt])
    conc = os.path.join(common.HARNESS, "target", "release", "vhconc")
    total_calls = 0
    for threads, rounds in ([(2, 4), (4, 4), (8, 4)] if ctx.quick else [(2, 20), (3, 20), (4, 20), (8, 20), (16, 20)]):
        name = "stress_t%d" % threads
        prefix = os.path.join(d, name + ".rows")
        common.clean_prefix(prefix)
        shards = 16
        pr = common.sh([conc, "--pats", rp, "--texts", rt, "--threads", str(threads), "--rounds", str(rounds), "--seed", str(ctx.seed * 100 + threads),
                        "--shards", str(shards), "--out", prefix], timeout=3600)
        if pr.returncode != 0:
            ctx.violation("concurrent stress with %d threads crashed (exit %s)" % (threads, pr.returncode), dict(kind="stress", threads=threads, output=pr.stdout[-2000:]))
            continue
        rs = tlc.run_shards("TraceRows", [dict(VH_RECS="%s.%d.ndjson" % (prefix, i), VH_TEXTS=t2, VH_MODE="caps", VH_EXCL=excl, VH_LEMMA="0") for i in range(shards)])
        tlc.require_clean(rs, "TraceRows(%s)" % name)
        ctx.add_tlc(rs)
        st = {}
        for x in rs:
            for k, v in x.tagged("STATS")[0].items():
                st[k] = st.get(k, 0) + v
            for j in x.tagged("REJECT"):
                ctx.violation("under %d concurrent threads pattern %s returned a result the sequential semantics does not allow: %s (missing: %s)"
                              % (threads, j["pat"], j["logged_not_expected"], j["expected_not_logged"]), dict(kind="stress", threads=threads, got=j))
        calls = int(pr.stdout.split(" calls")[0].split()[-1]) if " calls" in pr.stdout else 0
        total_calls += calls
        ctx.cov.setdefault("stress", {})[name] = dict(st, threads=threads, rounds=rounds, calls=calls)
        ctx.traces += st["ok"]
        ctx.nontrivial += st["matching_cells"]
    ctx.evaluations = total_calls
    probe_known(ctx, "caps")
    ctx.samples.append(dict(corpus_patterns=len(corpus), first=corpus[0]["ast"]))
    ctx.exhaustive = False
    ctx.assumptions = ["model_checking for the design (Conc.tla); the binding samples schedules of the real code (loom/shuttle cannot instrument std primitives used by the crate and regex-automata)",
                       "a wrong result is detectable only if it differs from the sequential result of the same call"]
    return "model_checking"


def mc_tostr(ctx):
    """C03 at design level: what ToStr.tla (mirror of Expr::to_str) prints for an easy subtree parses back to the same meaning, at every
    precedence and in context, and consecutive pieces concatenate (MC_ToStr.tla)."""
    files = [pats("core", n) for n in (1, 2, 3)] + [pats("case", 3), pats("ctxfill", 0)]
    recs = []
    for f in files:
        recs += read_ndjson(f)
    if not ctx.quick:
        recs += sample(ctx, read_ndjson(pats("core", 4)), 20000)
    path = os.path.join(common.workdir(ctx.prop), "tostr.pats.ndjson")
    common.write_ndjson(path, renumber_ids(recs))
    cfg = "SPECIFICATION Spec\nINVARIANT PrintedMeansSame\nINVARIANT PrintedFitsContext\nINVARIANT PiecesConcatenate\nCHECK_DEADLOCK FALSE\n"
    r = tlc.run_mc(ctx, "MC_ToStr", cfg, env=dict(VH_PATS=path), workers=8, timeout=7200)
    mc_violation(ctx, r, "MC_ToStr(%d patterns)" % len(recs))
    ctx.cov["mc_tostr"] = dict(patterns=len(recs), pattern_subtree_pairs=r.distinct - len(recs) - 1,
                               note="Parse.tla(ToStr.tla(subtree, p)) means the subtree for p in 0..3, inside *, concatenation and alternation contexts, and for runs of siblings")


def run_tostr_oracle(ctx, name, recs):
    """Expr::to_str on every subtree of the real parse tree of every input, at precedences 0..3.  Judged: the printed text, read the way
    the regex crate reads it (RxRead.tla), means the subtree.  Reported only: it differs from the mirror ToStr.tla (spec drift)."""
    d = common.workdir(ctx.prop)
    inp = os.path.join(d, name + ".tin.ndjson")
    common.write_ndjson(inp, recs)
    prefix = os.path.join(d, name + ".tostr")
    common.clean_prefix(prefix)
    shards = 16
    common.vh(["tostr", "--inputs", inp, "--out", prefix, "--shards", shards])
    rs = tlc.run_shards("TraceToStr", [dict(VH_RECS="%s.%d.ndjson" % (prefix, i)) for i in range(shards)])
    tlc.require_clean(rs, "TraceToStr(%s)" % name)
    ctx.add_tlc(rs)
    st = {}
    drift = []
    for r in rs:
        for k, v in r.tagged("STATS")[0].items():
            st[k] = st.get(k, 0) + v
        for j in r.tagged("REJECT"):
            ctx.violation("to_str: pattern %s, subtree #%s %s is handed to the regex crate as %s, which means something else (verdicts %s)"
                          % ("".join(j["chars"])[:80], j["subtree"], json.dumps(j["tree"])[:200], json.dumps(["".join(x) for x in j["observed"]]), j["verdicts"]),
                          dict(kind="tostr", input=dict(id=1, toks=j["chars"]), got=j))
        drift += r.tagged("DRIFT")
    if st["records"] != len(recs):
        raise ToolError("TraceToStr(%s): %d of %d inputs validated" % (name, st["records"], len(recs)))
    if drift:
        st["drift_example"] = dict(pattern="".join(drift[0]["chars"]), mirror=["".join(x) for x in drift[0]["mirror"]], observed=["".join(x) for x in drift[0]["observed"]])
        ctx.cov.setdefault("spec_drift", {})["to_str_" + name] = "%d subtrees: Expr::to_str prints something else than the mirror ToStr.tla (informational; judged by meaning)" % st["drift_subtrees"]
    ctx.cov.setdefault("to_str_oracle", {})[name] = st
    ctx.traces += st["ok"]
    log("to_str oracle %s: %d inputs, %d texts judged, %d unread, %d drift, %d rejected" % (name, st["records"], st["judged_texts"], st["unread_texts"], st["drift_subtrees"], st["rejected"]))
    return st


def mc_front(ctx):
    """C19 at design level: Norm(Abs(Parse.tla(Spell(ast, style)))) = Norm(ast) for every pattern of the exported spaces and every
    applicable style (MC_Front.tla); the parser model itself is bound to the real parser by TraceParse."""
    files = [pats("core", n) for n in (1, 2, 3)] + [pats("cond", 3), pats("lb", 3), pats("case", 3), pats("ctxfill", 0), pats("condctx", 0)]
    recs = []
    for f in files:
        recs += read_ndjson(f)
    if not ctx.quick:
        recs += sample(ctx, read_ndjson(pats("core", 4)), 30000)
    path = os.path.join(common.workdir(ctx.prop), "front.pats.ndjson")
    common.write_ndjson(path, renumber_ids(recs))
    cfg = "SPECIFICATION Spec\nINVARIANT Accepted\nINVARIANT SameMeaning\nINVARIANT SameGroupCount\nINVARIANT NamesRight\nCHECK_DEADLOCK FALSE\n"
    r = tlc.run_mc(ctx, "MC_Front", cfg, env=dict(VH_PATS=path), workers=8, timeout=7200)
    mc_violation(ctx, r, "MC_Front(%d patterns x 15 styles)" % len(recs))
    ctx.cov["mc_front"] = dict(patterns=len(recs), pattern_style_pairs=r.distinct - len(recs) - 1,
                               note="front end closed in the specification: Spell -> characters -> Parse.tla -> Abs -> Norm = Norm(ast), group count and names")


def mc_pipeline(ctx, styles, k_quick, textsig=("sig6", 2)):
    """The whole library as one function of the specification (string -> Parse.tla -> Front -> Analyze -> Compile -> VM) against RefSem of the
    intended pattern, for every applicable style <= styles, every text and every offset (MC_Pipeline.tla)."""
    files = [pats("core", n) for n in (1, 2, 3)] + [pats("ctxfill", 0)]
    recs = []
    for f in files:
        recs += read_ndjson(f)
    if ctx.quick:
        recs = sample(ctx, recs, k_quick)
    path = os.path.join(common.workdir(ctx.prop), "pipeline.pats.ndjson")
    common.write_ndjson(path, renumber_ids(recs))
    cfg = "SPECIFICATION Spec\nINVARIANT FrontEndAccepts\nINVARIANT SameCompileVerdict\nINVARIANT PipelineAgrees\nCHECK_DEADLOCK FALSE\n"
    r = tlc.run_mc(ctx, "MC_Pipeline", cfg, env=dict(VH_PATS=path, VH_TEXTS=texts(*textsig), VH_STYLES=styles), workers=12, timeout=14400)
    mc_violation(ctx, r, "MC_Pipeline(%d patterns, styles <= %d)" % (len(recs), styles))
    ctx.cov["mc_pipeline"] = dict(patterns=len(recs), styles=styles, pattern_style_pairs=r.distinct - len(recs) - 1, texts="%s<=%d" % textsig,
                                  note="string -> Parse.tla -> Abs/Norm -> Analyze -> Compile -> VM.tla = RefSem!Search of the intended pattern, all groups, every text and offset")


@check("C19")
def c19(ctx):
    excl = "".join(common.excl_classes("C19"))
    ctx.rule = ("records = (base pattern, style, spelling) with spellings GENERATED by Spell.tla (free-spacing + comments, (?#..) comments, (?<n>)/(?P<n>) groups "
                "with \\k<n>/(?P=n), relative \\k<-n>, inline vs scoped flags, \\xHH / \\x{..} / \\uHHHH escapes, possessive vs atomic, \\A \\z vs ^ $, and all "
                "combined); every spelling is compiled and run over all cells; TLC requires its rows = RefSem of the BASE pattern (hence identical within a "
                "class) and, where the tree is defined to be the same, the same parser tree (hash of the Debug rendering) as the plain spelling; "
                "non-trivial = matching cells")
    t3 = texts("sig6", 3)
    mc_front(ctx)
    mc_pipeline(ctx, 15, 150)
    sp = []
    for n in (1, 2, 3):
        sp += read_ndjson(common.export("spell_core_%d" % n, "spell", n, prof="core"))
    spcf = read_ndjson(common.export("spell_ctxfill_0", "spell", 0, prof="ctxfill"))
    spcase = read_ndjson(common.export("spell_case_3", "spell", 3, prof="case"))
    if ctx.quick:
        spaces = [("spell_pat123", renumber_ids(sample(ctx, sp, 2500))), ("spell_ctxfill", renumber_ids(sample(ctx, spcf, 2000))), ("spell_case3", renumber_ids(sample(ctx, spcase, 800)))]
    else:
        spaces = [("spell_pat123", renumber_ids(sp)), ("spell_ctxfill", spcf), ("spell_case3", spcase),
                  ("spell_pat4", renumber_ids(sample(ctx, read_ndjson(common.export("spell_core_4", "spell", 4, prof="core")), 40000)))]
    for name, recs in spaces:
        rowsp.run_rows(ctx, name, recs, texts("case4", 3) if "case" in name else t3, "caps", excl)
        # recogniser direction: the real parser's tree for every spelling = Parse.tla's tree; and, in the model, spelling and plain form parse alike
        run_parse_oracle(ctx, name, recs)
    probe_known(ctx, "caps")
    ctx.exhaustive = False
    ctx.assumptions = ROWS_ASSUME + ["Spell.tla is a generative model: only spellings it produces are covered; the recogniser direction is Parse.tla (bound tree by tree by TraceParse) and MC_Front (Parse.tla o Spell = identity up to Norm)"]
    return "model_checking"


@check("C20")
def c20(ctx):
    ctx.rule = ("model: every operation sequence (create alternative, abandon, write slot, push/pop auxiliary stack, commit to any earlier count) up to the bound over "
                "the stated slots/values; the concrete undo log transcribed from vm.rs refines the whole-state-copy model (TLC invariant Refines); binding: every "
                "history TLC generated while exploring (one per reached state) plus long simulated histories are replayed into the REAL vm::State through the "
                "hook wrapper and the observable state after EVERY operation is compared by TLC with the abstract model; non-trivial = histories containing a "
                "pop or cut after a save")
    if ctx.quick:
        consts = "NSlots = 2  Vals = {0, 1}  MaxDepth = 3  MaxX = 2"
        maxops, nslots = 5, 2
    else:
        consts = "NSlots = 3  Vals = {0, 1, 2}  MaxDepth = 3  MaxX = 2"
        maxops, nslots = 6, 3
    cfg = ("SPECIFICATION Spec\nCONSTANTS %s  MaxOps = %d\nINVARIANT Refines\nINVARIANT LogWellFormed\nINVARIANT PopAgrees\nINVARIANT TopAgrees\n"
           "INVARIANT Emit\nCONSTRAINT Bound\nVIEW view\nCHECK_DEADLOCK FALSE\n" % (consts, maxops))
    r = tlc.run_mc(ctx, "MC_SaveLog", cfg, must_cover=("Push", "Pop", "SPop"), env=dict(VH_EMIT="1"), workers=8, xmx="16g", timeout=7200)
    mc_violation(ctx, r, "MC_SaveLog(%s, MaxOps=%d)" % (consts, maxops))
    hists = [h["h"] for h in r.tagged("REPLAY")]
    ctx.cov["mc_savelog"] = dict(constants=consts, max_ops=maxops, distinct_states=r.distinct, generated=r.generated, histories_emitted=len(hists))
    # deeper model checking without emission (the refinement itself, one more operation)
    r2 = tlc.run_mc(ctx, "MC_SaveLog", cfg.replace("MaxOps = %d" % maxops, "MaxOps = %d" % (maxops + (2 if ctx.quick else 1))), name="MC_SaveLog_deep", coverage=False,
                    env=dict(VH_EMIT="0"), workers=16, xmx="24g", timeout=7200)
    mc_violation(ctx, r2, "MC_SaveLog_deep")
    ctx.cov["mc_savelog_deep"] = dict(max_ops=maxops + (2 if ctx.quick else 1), distinct_states=r2.distinct, generated=r2.generated)
    # long random histories from TLC's simulator
    sim = tlc.run_tlc("MC_SaveLog", cfg=_write_cfg("MC_SaveLog_sim", cfg.replace("MaxOps = %d" % maxops, "MaxOps = 40").replace("VIEW view\n", "")),
                      env=dict(VH_EMIT="1"), workers=1, simulate="num=%d" % (2000 if ctx.quick else 20000), extra=("-depth", "40", "-seed", str(ctx.seed + 1)),
                      tag="MC_SaveLog_sim", deque=False, timeout=3600)
    lines = [h["h"] for h in sim.tagged("REPLAY")]
    longh = [h for i, h in enumerate(lines) if i + 1 == len(lines) or len(lines[i + 1]) <= len(h)]
    if sim.violated:
        mc_violation(ctx, sim, "MC_SaveLog simulation")
    if not longh:
        raise ToolError("simulation produced no histories:\n" + "\n".join(sim.out.splitlines()[-15:]))
    if len(hists) > 400000:
        hists = sample(ctx, hists, 400000)
    d = common.workdir("C20")
    tcfg = _write_cfg("TraceSaveLog", "SPECIFICATION TSpec\nCONSTANTS %s\nCHECK_DEADLOCK FALSE\nPOSTCONDITION Consumed\n" % consts)
    # seeded random histories from the driver (the validator is the same abstract model, so the sampler needs no trust):
    # biased towards the shapes commits are about -- several alternatives, repeated writes of one slot, cut to an inner count, then pops
    rnd = []
    vals = [0, 1] if nslots == 2 else [0, 1, 2]
    for _ in range(30000 if ctx.quick else 400000):
        h, depth, xd, n, xds = [], 0, 0, 0, []   # xds: explicit-stack depth remembered by each alternative (it is restored on pop)
        for _ in range(ctx.rng.randint(6, 24)):
            x = ctx.rng.random()
            if x < 0.30:
                h.append(["save", ctx.rng.randrange(nslots), ctx.rng.choice(vals)])
            elif x < 0.55 and depth < 3:
                h.append(["push", 10 + n, n]); depth += 1; xds.append(xd)
            elif x < 0.70 and depth > 0:
                h.append(["pop", 0, 0]); depth -= 1; xd = xds.pop()
            elif x < 0.85 and depth > 0:
                k = ctx.rng.randint(0, depth)
                h.append(["cut", k, 0]); depth = k; xds = xds[:k]
            elif x < 0.93 and xd < 2:
                h.append(["spush", ctx.rng.choice(vals), 0]); xd += 1
            elif xd > 0:
                h.append(["spop", 0, 0]); xd -= 1
            else:
                h.append(["save", ctx.rng.randrange(nslots), ctx.rng.choice(vals)])
            n += 1
        rnd.append(h)
    for name, hs in (("state_graph", hists), ("simulated", longh), ("random", rnd)):
        hf = os.path.join(d, name + ".hists.ndjson")
        common.write_ndjson(hf, [{"h": h} for h in hs])
        prefix = os.path.join(d, name + ".sl")
        common.clean_prefix(prefix)
        shards = 16 if len(hs) > 2000 else 2
        common.vh(["savelog", "--hists", hf, "--nslots", nslots, "--out", prefix, "--shards", shards])
        rs = tlc.run_shards("TraceSaveLog", [dict(VH_RECS="%s.%d.ndjson" % (prefix, i)) for i in range(shards)], cfg=tcfg)
        tlc.require_clean(rs, "TraceSaveLog(%s)" % name)
        ctx.add_tlc(rs)
        st = {}
        for x in rs:
            for k, v in x.tagged("STATS")[0].items():
                st[k] = st.get(k, 0) + v
            for j in x.tagged("REJECT"):
                ctx.violation("history %s: the real State differs from the whole-copy model at operation %s (observed %s)" % (j["h"], j["first_bad_op"], j["observed"]),
                              dict(kind="savelog", h=j["h"], nslots=nslots, consts=consts, got=j))
        if st["records"] != len(hs):
            raise ToolError("TraceSaveLog(%s): %d of %d histories validated" % (name, st["records"], len(hs)))
        ctx.cov.setdefault("replay", {})[name] = st
        ctx.traces += st["ok"]
        ctx.evaluations += st["operations"]
    # (b) program-level replay of the same discipline: real regex runs, slot vector compared with the whole-copy VM model at every step
    cf = read_ndjson(pats("ctxfill", 0)) + read_ndjson(pats("condctx", 0))
    vmp.run_tracevm(ctx, "program_level", vmp.with_cells(ctx.rng, renumber_ids(sample(ctx, cf, 400 if ctx.quick else 2179)), texts("sig6", 3), 3 if ctx.quick else 8), texts("sig6", 3))
    nt = 0
    for h in hists + longh:
        seen_save = False
        for op in h:
            if op[0] == "save":
                seen_save = True
            elif op[0] in ("pop", "cut") and seen_save:
                nt += 1
                break
    ctx.nontrivial = nt
    ctx.samples += [dict(history=h) for h in (hists[len(hists) // 2], longh[0])]
    ctx.exhaustive = True
    ctx.cov["exhaustive_note"] = "all operation sequences up to MaxOps over the stated slots/values are model-checked; all of them up to the emission bound are replayed"
    ctx.assumptions = ["SaveLogOps.tla's concrete half is a line-by-line transcription of vm.rs::State; the replay compares the REAL State, not the transcription",
                       "pc/ix payloads are distinct per push so that a wrong branch would be visible"]
    return "model_checking"


def _write_cfg(name, text):
    d = os.path.join(common.WORK, "cfg")
    os.makedirs(d, exist_ok=True)
    p = os.path.join(d, name + ".cfg")
    with open(p, "w") as f:
        f.write(text)
    return p


@check("C15")
def c15(ctx):
    excl = "".join(common.excl_classes("C15"))
    ctx.rule = ("cells as C01; patterns: conditional grammar Gram!ProfCond exhaustive up to the node bound ((?(N)..), (?(N)), "
                "(?(cond)yes|no) with look-around and consuming conditions), conditional fillers x contexts (inside atomic groups, "
                "loops, look-arounds, other conditions), seeded random; all groups compared; non-trivial = matching cells")
    t3 = texts("sig6", 3)
    small = []
    for n in (1, 2, 3, 4):
        small += read_ndjson(pats("cond", n))
    cc = read_ndjson(pats("condctx", 0))
    if ctx.quick:
        spaces = [("cond1234", renumber_ids(small), t3), ("condctx", cc, t3),
                  ("random", randgen.random_pats(ctx.rng, "cond", 1200, depth=3), t3)]
    else:
        t4 = texts("sig6", 4)
        spaces = [("cond1234", renumber_ids(small), t3), ("condctx", cc, t3),
                  ("random", randgen.random_pats(ctx.rng, "cond", 30000, depth=4, max_nodes=18), t3),
                  ("condctx_L4", cc, t4), ("cond123_L4", renumber_ids([r for r in small]), t4)]
    ctx.exhaustive = False
    hybrid_model(ctx, "cond", [pats("cond", 3), pats("cond", 4), pats("condctx", 0)], 1200 if ctx.quick else None)
    for name, recs, tpath in spaces:
        rowsp.run_rows(ctx, name, recs, tpath, "caps", excl)
    vmp.run_tracevm(ctx, "condctx", vmp.with_cells(ctx.rng, renumber_ids(cc), t3, 3 if ctx.quick else 10), t3)
    probe_known(ctx, "caps")
    ctx.assumptions = ROWS_ASSUME
    return "model_checking"


def mc_violation(ctx, r, name):
    """a design-level instance refuted by TLC: the MODEL breaks the property (reported as a violation of the
    check, with TLC's counterexample tail as detail)"""
    if r.violated:
        tail = "\n".join(r.out.splitlines()[-60:])
        ctx.violation("model instance %s: TLC reports %s violated" % (name, r.violated), dict(kind="mc", instance=name, violated=r.violated, tlc_tail=tail))


def random_templates(rng, count, lo, hi):
    alpha = ["$", "{", "}", "\\", "g", "<", ">", "0", "1", "9", "x", "U", "E", "S"]
    frag = [["$", "$"], ["$", "{", "x", "}"], ["$", "x", "1"], ["$", "1"], ["$", "{", "1", "}"], ["\\", "g", "<", "x", ">"], ["\\", "1"],
            ["\\", "\\"], ["$", "{", "U", "}"], ["\\", "g", "<", "9", ">"], ["$", "9"], ["$", "{"], ["\\", "g", "<"], ["$", "0"], ["\\", "0"]]
    out = []
    for i in range(count):
        t = []
        while len(t) < rng.randint(lo, hi):
            if rng.random() < 0.45:
                t += rng.choice(frag)
            else:
                t.append(rng.choice(alpha))
        out.append({"id": i + 1, "tpl": t[:hi + 3]})
    return out


@check("C12")
def c12(ctx):
    ctx.rule = ("model: every string/template up to the bound over the 14-symbol template alphabet x 3 capture environments x 2 dialects, "
                "one TLC state per scanner step; binding: every template up to the bound (exported by TLC) plus seeded longer ones x 3 real "
                "regex fixtures (unnamed, named, digit-named groups, an unmatched group) x both expanders x 6 public entry points + check + "
                "escape round trip, recomputed by TLC; non-trivial = templates containing at least one group reference")
    maxlen = 3 if ctx.quick else 4
    cfg = ("SPECIFICATION Spec\nCONSTANT MaxLen = %d\nINVARIANT RoundTrip\nINVARIANT StepwiseIsExpansion\nINVARIANT CheckSound\n"
           "INVARIANT EscapeBorrowRule\nINVARIANT CursorBounded\nPROPERTY Progress\nCHECK_DEADLOCK FALSE\n" % maxlen)
    r = tlc.run_mc(ctx, "MC_Expand", cfg, must_cover=("ScanStep",), workers=8 if ctx.quick else 16, xmx="8g" if ctx.quick else "24g")
    mc_violation(ctx, r, "MC_Expand(MaxLen=%d)" % maxlen)
    ctx.cov["mc_expand"] = dict(maxlen=maxlen, distinct_states=r.distinct, generated=r.generated)
    fixtures = common.export("expand_fixtures", "fixtures", 0)
    n = 3 if ctx.quick else 4
    tp = read_ndjson(common.export("templates_%d" % n, "templates", n))
    rnd = random_templates(ctx.rng, 6000 if ctx.quick else 150000, 4, 9)
    d = common.workdir("C12")
    nrej = 0
    for name, recs in (("exhaustive_le%d" % n, tp), ("random", rnd)):
        tf = os.path.join(d, name + ".tpl.ndjson")
        common.write_ndjson(tf, recs)
        prefix = os.path.join(d, name + ".exp")
        common.clean_prefix(prefix)
        shards = 16 if len(recs) > 2000 else 4
        common.vh(["expand", "--templates", tf, "--fixtures", fixtures, "--out", prefix, "--shards", shards])
        rs = tlc.run_shards("TraceExpand", [dict(VH_RECS="%s.%d.ndjson" % (prefix, i)) for i in range(shards)])
        tlc.require_clean(rs, "TraceExpand(%s)" % name)
        ctx.add_tlc(rs)
        st = {}
        for r in rs:
            for k, v in r.tagged("STATS")[0].items():
                st[k] = st.get(k, 0) + v
            for j in r.tagged("REJECT"):
                nrej += 1
                ctx.violation("template %s: %s" % ("".join(j["tpl"]), j["what"]), dict(kind="expand", **j))
        if st["records"] != len(recs) + shards:
            raise ToolError("TraceExpand(%s): %d records validated, %d expected" % (name, st["records"], len(recs) + shards))
        ctx.cov.setdefault("spaces", {})[name] = st
        ctx.traces += st["ok"]
        ctx.evaluations += st["outputs"]
        ctx.nontrivial += st["with_reference"]
        ctx.samples.append(dict(space=name, template="".join(recs[len(recs) // 2]["tpl"])))
    ctx.exhaustive = True
    ctx.cov["exhaustive_note"] = "templates up to length %d over the template alphabet are enumerated completely; longer ones are sampled" % n
    ctx.assumptions = ["Expand.tla is the documented interpretation of templates (transcribed from the docs of Captures::expand / Expander)",
                       "fixtures' capture environments are logged by the harness and compared with the specification's"]
    return "model_checking"


def mc_iter(ctx):
    maxn = 7 if ctx.quick else 10
    cfg = ("SPECIFICATION Spec\nCONSTANT MaxN = %d\nCONSTANT Contract = TRUE\nINVARIANT ItemsOrdered\nINVARIANT SearchesBounded\n"
           "INVARIANT ErrIsSticky\nINVARIANT PiecesSoFar\nINVARIANT FinalPieces\nINVARIANT Tiles\nCHECK_DEADLOCK FALSE\n" % maxn)
    r = tlc.run_mc(ctx, "MC_Iter", cfg, must_cover=("Exhausted", "Rest", "LimitNone"), workers=8)
    mc_violation(ctx, r, "MC_Iter(MaxN=%d)" % maxn)
    ctx.cov["mc_iter"] = dict(max_text_len=maxn, distinct_states=r.distinct, generated=r.generated,
                              note="every leaf behaviour allowed by the contract pos<=start<=end<=len, incl. errors; split and splitn(0..3)")
    if not ctx.quick:
        neg = tlc.run_mc(None, "MC_Iter", cfg.replace("Contract = TRUE", "Contract = FALSE").replace("MaxN = %d" % maxn, "MaxN = 3"), name="MC_Iter_neg", workers=2)
        if not neg.violated:
            raise ToolError("negative control failed: MC_Iter without the leaf contract should violate ItemsOrdered")
        ctx.cov["mc_iter"]["negative_control"] = "without the leaf contract TLC refutes " + neg.violated


def apalache_obligations(ctx, key, module, obligations, note):
    """Run Apalache obligations (name, args, wanted exit); a refuted obligation that should hold is a violation of the design-level instance."""
    d = os.path.join(common.WORK, "apalache-" + key)
    os.makedirs(d, exist_ok=True)
    spec = os.path.join(common.SPEC, "apalache")
    done = {}
    for name, args, want in obligations:
        p = common.sh(["apalache-mc", "check", "--cinit=ConstInit", "--out-dir=" + d, "--write-intermediate=false"] + args, cwd=spec, timeout=900)
        m = [l for l in p.stdout.splitlines() if l.startswith("EXITCODE:")]
        got = m[-1].split("EXITCODE:")[1].strip() if m else "none"
        if got != want:
            if want == "OK" and got.startswith("ERROR (12)"):
                ctx.violation("Apalache refutes the inductive invariant of the model %s (%s)" % (module, name), dict(kind="mc", instance=module + "." + name, tlc_tail=p.stdout[-3000:]))
            else:
                raise ToolError("apalache %s %s: expected %s, got %s\n%s" % (module, name, want, got, p.stdout[-1500:]))
        done[name] = got
    ctx.cov["apalache_" + key] = dict(obligations=done, note=note)
    import shutil
    shutil.rmtree(d, ignore_errors=True)


def apalache_iter(ctx):
    """Unbounded complement of MC_Iter: Apalache discharges an inductive invariant of the Matches iterator for EVERY text length
    (integers only): items ordered / non-overlapping / strictly increasing, plus the progress action invariant (termination)."""
    apalache_obligations(ctx, "iter", "ApaIter",
                         [("base", ["--init=Init", "--inv=IndInv", "--length=0", "ApaIter.tla"], "OK"),
                          ("step", ["--init=IndInit", "--inv=IndInv", "--length=1", "ApaIter.tla"], "OK"),
                          ("progress", ["--init=IndInit", "--inv=Progress", "--length=1", "ApaIter.tla"], "OK"),
                          ("negative_control_without_leaf_contract", ["--init=IndInit", "--inv=IndInv", "--length=1", "ApaIterNeg.tla"], "ERROR (12)")],
                         "inductive invariant IndInv (base + step) and action invariant Progress hold for every N; integers only")


def apalache_split(ctx):
    """Unbounded complement of MC_Iter for C10: Split / SplitN over the Matches iterator for EVERY text length and EVERY limit: each piece is a
    valid slice, pieces and matches tile the text, never more than `limit` pieces (inductive invariant, integers only)."""
    apalache_obligations(ctx, "split", "ApaSplit",
                         [("base", ["--init=Init", "--inv=IndInv", "--length=0", "ApaSplit.tla"], "OK"),
                          ("step", ["--init=IndInit", "--inv=IndInv", "--length=1", "ApaSplit.tla"], "OK"),
                          ("tiles", ["--init=IndInit", "--inv=Tiles", "--length=1", "ApaSplit.tla"], "OK"),
                          ("negative_control_without_leaf_contract", ["--init=IndInit", "--inv=IndInv", "--length=1", "ApaSplitNeg.tla"], "ERROR (12)")],
                         "inductive invariant of Split/SplitN (valid slices, tiling, limit countdown) holds for every N and every limit; integers only")


def apalache_replace(ctx):
    """Unbounded complement for C11: try_replacen over the iterator for EVERY text length and EVERY limit: copied stretches are valid slices,
    copied stretches and replaced matches tile the text, at most K replacements (inductive invariant, integers only)."""
    apalache_obligations(ctx, "replace", "ApaReplace",
                         [("base", ["--init=Init", "--inv=IndInv", "--length=0", "ApaReplace.tla"], "OK"),
                          ("step", ["--init=IndInit", "--inv=IndInv", "--length=1", "ApaReplace.tla"], "OK"),
                          ("tiles", ["--init=IndInit", "--inv=Tiles", "--length=1", "ApaReplace.tla"], "OK"),
                          ("negative_control_without_leaf_contract", ["--init=IndInit", "--inv=IndInv", "--length=1", "ApaReplaceNeg.tla"], "ERROR (12)")],
                         "inductive invariant of try_replacen (valid slices, tiling, at most K replacements) holds for every N and every K; integers only")


def error_histories(ctx, excl):
    """records built with a tiny backtrack limit: captures_iter / split / splitn / try_replacen must cohere with the find_iter history of the
    same regex (part "eh" of TraceIter); heavy templates make the error arrive AFTER some matches"""
    base = read_ndjson(pats("ctxfill", 0))
    eh = []
    for r in sample(ctx, base, 300 if ctx.quick else 1500):
        eh.append(dict(r, bl=ctx.rng.choice([0, 1, 2, 3, 5, 8, 13])))
    # matches first, then a search that needs many backtracks: D|(?:a|b|ab)*(?=c) style patterns over texts such as "-ab"
    def Lit(c): return {"k": "lit", "c": c, "ci": False}
    def Alt(xs): return {"k": "alt", "xs": xs}
    def Cat(xs): return {"k": "cat", "xs": xs}
    def Star(x): return {"k": "rep", "x": x, "lo": 0, "hi": -1, "g": True}
    def Plus(x): return {"k": "rep", "x": x, "lo": 1, "hi": -1, "g": True}
    def Look(x): return {"k": "look", "neg": False, "x": x}
    def Grp(n, x): return {"k": "grp", "n": n, "x": x}
    heavy = [Alt([Lit("D"), Cat([Plus(Alt([Lit("a"), Lit("b"), Cat([Lit("a"), Lit("b")])])), Look(Lit("c"))])]),
             Alt([Lit("D"), Cat([Grp(1, Plus(Alt([Lit("a"), Cat([Lit("a"), Lit("a")])]))), Look(Lit("c"))])]),
             Alt([Cat([Lit("D"), Look({"k": "empty"})]), Cat([Plus(Alt([Lit("a"), Lit("b")])), Lit("c")])]),
             Alt([Cat([Lit("N"), Look({"k": "empty"})]), Cat([Plus(Alt([Lit("a"), Lit("b"), Cat([Lit("b"), Lit("a")])])), Look(Lit("c"))])])]
    hv = []
    for h in heavy:
        for bl in (2, 4, 6, 10, 16, 30):
            hv.append(dict(ast=h, ng=1 if "grp" in json.dumps(h) else 0, bl=bl))
    res = iterp.run_iters(ctx, "errhist_eh", renumber_ids(eh), texts("sig6", 2) if ctx.quick else texts("sig6", 3), "eh", excl)
    res2 = iterp.run_iters(ctx, "errhist_heavy", renumber_ids(hv), texts("sig6", 3) if ctx.quick else texts("sig6", 4), "eh", excl)
    if res["stats"]["error_histories"] == 0 or res2["stats"]["error_histories"] == 0:
        raise ToolError("no error history was produced under tiny backtrack limits (vacuous)")
    return res


def iter_spaces(ctx, part):
    t3 = texts("sig6", 3)
    small = []
    for n in (1, 2, 3):
        small += read_ndjson(pats("iter", n))
    core3 = read_ndjson(pats("core", 3))
    cf = read_ndjson(pats("ctxfill", 0))
    if ctx.quick:
        k = {"fi": 1.0, "ci": 1.0, "sp": 0.35, "rp": 0.5}[part]
        spaces = [("iter123", renumber_ids(sample(ctx, small, int(1200 * k))), t3), ("core3", renumber_ids(sample(ctx, core3, int(600 * k))), t3),
                  ("ctxfill", renumber_ids(sample(ctx, cf, int(600 * k))), t3), ("ctx2", common.ctx2(ctx, "ctx2_" + part, int(300 * k)), t3),
                  ("random", randgen.random_pats(ctx.rng, "core", int(400 * k), depth=3), t3)]
    else:
        t4 = texts("sig6", 4)
        spaces = [("iter123", renumber_ids(small), t3), ("core3", core3, t3), ("ctxfill", cf, t3), ("ctx2", common.ctx2(ctx, "ctx2_" + part, 3000), t3),
                  ("random", randgen.random_pats(ctx.rng, "core", 6000, depth=4, max_nodes=16), t3),
                  ("iter123_L4", renumber_ids(sample(ctx, small, 600)), t4)]
    return spaces


ITER_ASSUME = ROWS_ASSUME + ["Api.tla mirrors the iterator state machines of lib.rs; its laws are model-checked for every leaf behaviour in MC_Iter"]


def wild_space(ctx, nsmall, nrand):
    wild = []
    for n in (1, 2, 3):
        wild += read_ndjson(pats("wild", n))
    shapes = read_ndjson(pats("wildshapes", 0))
    rnd = randgen.random_pats(ctx.rng, "wild", nrand, depth=3 if ctx.quick else 4, max_nodes=14 if ctx.quick else 18)
    return shapes, renumber_ids(sample(ctx, wild, nsmall)), rnd


@check("C05")
def c05(ctx):
    ctx.rule = ("(a) contract records: every public search/iterate/split/replace entry point under catch_unwind on the unrestricted grammar (self and forward "
                "references, \\K and \\G anywhere, conditionals, nullable loops, hand-written self-reference shapes) x texts mixing 1-4 byte characters x every "
                "offset; TLC judges every raw byte offset (start <= end <= len, both on character boundaries) and that no call panicked or ran away; "
                "(b) MC_Hybrid on the REAL programs of those patterns: VM.tla runs every (program, text, offset), invariants at every state: no panic site "
                "reached, ix on a boundary, capture slots valid, answer valid; (c) real VM traces validated step by step against VM.tla; "
                "non-trivial = result rows inspected / VM steps validated")
    tw3 = texts("wide", 3)
    tw2 = texts("wide", 2)
    shapes, small, rnd = wild_space(ctx, 900 if ctx.quick else 4000, 900 if ctx.quick else 20000)
    for name, recs in (("shapes", shapes), ("wild123", small), ("random_wild", rnd), ("ctx2", common.ctx2(ctx, "ctx2", 300 if ctx.quick else 3000))):
        iterp.run_iters(ctx, name, recs, tw3, "c5", "", parts="fi,ci,sp,co,rows" if name != "shapes" else "fi,ci,sp,co,rows,rp")
    # (b) design-level search for reachable panic sites, driven by what the real compiler emits
    progs = vmp.dump_progs(ctx, "wildprogs", renumber_ids(shapes + sample(ctx, small, 500 if ctx.quick else 3000) + sample(ctx, rnd, 300 if ctx.quick else 3000)))
    vmp.run_hybrid(ctx, "real_wild", progs, tw2 if ctx.quick else tw3, use="real", sem=False, extra_invs=())
    # (c) L1
    tr = vmp.with_cells(ctx.rng, renumber_ids(shapes + sample(ctx, small, 300 if ctx.quick else 2000) + sample(ctx, rnd, 300 if ctx.quick else 2000)), tw3, 3)
    vmp.run_tracevm(ctx, "wild", tr, tw3)
    ctx.exhaustive = False
    ctx.assumptions = ["VM.tla marks as `panic` the places where vm.rs would slice out of range / off a boundary / unwrap None; memory safety itself is not modelled",
                       "panics, aborts and runaway iterators of the code under test are outcome values in the records"]
    return "model_checking"


def run_parse_oracle(ctx, name, recs, treelemma_is_violation=True, mode=None):
    """the parser oracle: Expr::parse_tree on every input vs Parse.tla (tree, named groups, referenced groups, error kind and position).
    mode "contract" (C06): only a panic or an error position beyond the pattern is a violation; mode "spelling" (C19): a spelling that does
    not parse or whose tree MEANS something else is a violation; every other difference from the mirror is reported as spec drift."""
    mode = mode or ("contract" if ctx.prop == "C06" else "spelling")
    d = common.workdir(ctx.prop)
    inp = os.path.join(d, name + ".pin.ndjson")
    common.write_ndjson(inp, recs)
    prefix = os.path.join(d, name + ".parse")
    common.clean_prefix(prefix)
    shards = 16 if len(recs) > 3000 else 4
    common.vh(["parse", "--inputs", inp, "--out", prefix, "--shards", shards])
    rs = tlc.run_shards("TraceParse", [dict(VH_RECS="%s.%d.ndjson" % (prefix, i), VH_MODE=mode) for i in range(shards)])
    tlc.require_clean(rs, "TraceParse(%s)" % name)
    ctx.add_tlc(rs)
    st = {}
    drift = []
    for r in rs:
        for k, v in r.tagged("STATS")[0].items():
            st[k] = st.get(k, 0) + v
        for j in r.tagged("REJECT"):
            ctx.violation("parser (%s): %s -> observed %s, Parse.tla expects %s" % (mode, "".join(j["chars"])[:80], json.dumps(j["observed"])[:300], json.dumps(j["expected"])[:300]),
                          dict(kind="parse", mode=mode, input=dict(id=1, toks=j["chars"]), got=j))
        drift += r.tagged("DRIFT")
    if drift:
        ctx.cov.setdefault("spec_drift", {})["parser_" + name] = dict(
            count=st.get("drift", len(drift)), note="Expr::parse_tree differs from the mirror Parse.tla without breaking the property (informational)",
            example=dict(pattern="".join(drift[0]["chars"])[:120], observed=json.dumps(drift[0]["observed"])[:300], mirror=json.dumps(drift[0]["expected"])[:300]))
        for j in r.tagged("TREELEMMA"):
            if treelemma_is_violation:
                raise ToolError("Parse.tla gives different trees for a spelling and its plain form (model-level lemma): %s vs %s" % ("".join(j["chars"]), "".join(j["chars0"])))
    if st["records"] != len(recs):
        raise ToolError("TraceParse(%s): %d of %d inputs validated" % (name, st["records"], len(recs)))
    ctx.cov.setdefault("parser_oracle", {})[name] = st
    ctx.traces += st["ok"]
    log("parse oracle %s: %d inputs, %d parse, %d errors, %d rejected" % (name, st["records"], st["parses"], st["parse_errors"], st["rejected"]))
    return st


@check("C06")
def c06(ctx):
    ctx.rule = ("inputs = every sequence of up to N fragments of the 100-fragment vocabulary of Contract.tla (exported by TLC), the amplification family "
                "opener^k body closer^k for k in {64, 1000, 100000}, 30 construct templates x 17 huge-count / huge-index stressors, seeded random longer sequences and mutations of valid patterns; each is passed to "
                "Regex::new in a child process (debug build: overflow checks on; 2 GiB address-space limit; CPU limit) under catch_unwind; TLC checks the "
                "contract on every recorded outcome (Ok or Err, error position <= length, time budget); a dead child is the outcome `abort` of the input "
                "it was processing; distinct non-trivial = inputs that reach an Err or compile (all do, by the contract)")
    common.build_harness("debug")
    n = 2 if ctx.quick else 3
    # design level: the parser MODEL never reports a position beyond the pattern and only builds well-formed trees, for ALL short strings
    mlen = 3 if ctx.quick else 4
    rmc = tlc.run_mc(ctx, "MC_Parse", "SPECIFICATION Spec\nCONSTANT MaxLen = %d\nINVARIANT ErrorPositionInRange\nINVARIANT TreeWellFormed\nCHECK_DEADLOCK FALSE\n" % mlen,
                     workers=16, xmx="16g", coverage=False)
    mc_violation(ctx, rmc, "MC_Parse(MaxLen=%d)" % mlen)
    ctx.cov["mc_parse"] = dict(max_len=mlen, alphabet=24, distinct_states=rmc.distinct)
    vocab = read_ndjson(common.export("vocab_%d" % n, "vocab", n, timeout=3600))
    amp = read_ndjson(common.export("amp", "amp", 0))
    stress = read_ndjson(common.export("stress", "stress", 0))
    voc = [v["toks"][0] for v in read_ndjson(common.export("vocab_1", "vocab", 1)) if v["toks"]]
    rnd = []
    for i in range(6000 if ctx.quick else 200000):
        rnd.append(dict(id=i + 1, toks=[ctx.rng.choice(voc) for _ in range(ctx.rng.randint(n + 1, 12))]))
    # mutations of valid patterns: take spellings from Spell.tla and insert/delete/replace one fragment
    sp = read_ndjson(common.export("spell_core_3", "spell", 3, prof="core"))
    mut = []
    for i in range(3000 if ctx.quick else 60000):
        t = list(ctx.rng.choice(sp)["toks"])
        op = ctx.rng.randrange(3)
        pos = ctx.rng.randrange(len(t) + 1)
        if op == 0 or not t:
            t.insert(pos, ctx.rng.choice(voc))
        elif op == 1:
            t.pop(min(pos, len(t) - 1))
        else:
            t[min(pos, len(t) - 1)] = ctx.rng.choice(voc)
        mut.append(dict(id=i + 1, toks=t))
    known = {w["what_key"]: f for f in common.open_findings("C06") for w in f.get("witnesses", []) if w.get("kind") == "compile"}
    d = common.workdir("C06")
    # valid patterns as they come from the grammar (every style): compiling them must not panic either
    spcf = read_ndjson(common.export("spell_ctxfill_0", "spell", 0, prof="ctxfill"))
    valid = renumber_ids([dict(toks=r["toks"]) for r in (sample(ctx, sp, 3000) + sample(ctx, spcf, 3000) if ctx.quick else sp + spcf)])
    for name, recs in (("vocab_le%d" % n, vocab), ("amplified", amp), ("stressors", stress), ("random", rnd), ("mutations", mut), ("valid", valid)):
        outs = compilep.run_inputs(ctx, name, recs)
        # the parser stage has an exact oracle: Parse.tla
        prec = [r for r in recs if not ("k" in r and r["k"] > 64)]
        if len(prec) > 60000:
            prec = sample(ctx, prec, 60000)
        run_parse_oracle(ctx, name, prec)
        shards = 16 if len(outs) > 5000 else 2
        prefix = os.path.join(d, name + ".out")
        common.clean_prefix(prefix)
        files = [open("%s.%d.ndjson" % (prefix, i), "w") for i in range(shards)]
        for i, o in enumerate(outs):
            files[i % shards].write(json.dumps(o) + "\n")
        for f in files:
            f.close()
        rs = tlc.run_shards("TraceContract", [dict(VH_RECS="%s.%d.ndjson" % (prefix, i)) for i in range(shards)])
        tlc.require_clean(rs, "TraceContract(%s)" % name)
        ctx.add_tlc(rs)
        st = {}
        for r in rs:
            for k, v in r.tagged("STATS")[0].items():
                st[k] = st.get(k, 0) + v
            for j in r.tagged("REJECT"):
                ctx.violation("Regex::new(%s): outcome %s (pos %s, len %s, %s ms, %s) violates the compile contract" % (j["what"], j["st"], j["pos"], j["len"], j["ms"], j["ek"]),
                              dict(kind="compile", space=name, input=[x for x in recs if x["id"] == j["id"]][:1], got=j))
        if st["records"] != len(recs):
            raise ToolError("TraceContract(%s): %d of %d outcomes validated" % (name, st["records"], len(recs)))
        ctx.cov.setdefault("spaces", {})[name] = st
        ctx.traces += st["ok"]
        ctx.evaluations += st["records"]
        ctx.nontrivial += st["compile_ok"] + st["compile_err"]
        ctx.samples.append(dict(space=name, input=recs[len(recs) // 3], outcome={k: outs[len(recs) // 3][k] for k in ("st", "pos", "len", "ms", "ek")}))
    ctx.exhaustive = True
    ctx.cov["exhaustive_note"] = "fragment sequences up to length %d are enumerated completely; amplified, random and mutated inputs are finite families/samples" % n
    ctx.assumptions = ["exploration: the TLA+ model supplies the input space and the contract; it does not predict panics, overflow, allocation or native stack depth",
                       "address-space limit 2 GiB and CPU limit per child stand in for 'time and memory proportional to the pattern'"]
    return "exploration"


@check("C07")
def c07(ctx):
    ctx.rule = ("limit records = per (pattern, text, offset): the unlimited search with hook statistics (backtracks B, instructions) and the same search under "
                "backtrack limits {0,1,2,3,5,10,100,10^6,B-1,B}; TLC runs VM.tla on the REAL program for every limit and requires the recorded outcome, the "
                "exact threshold (L >= B: unlimited answer, L < B: BacktrackLimitExceeded), no StackOverflow / limit error by default on these tiny inputs, and "
                "instructions <= StepBound(B, |prog|, |text|); model: MC_Hybrid with Terminates/NoRuntimeError on real programs of the unrestricted grammar; "
                "non-trivial = records whose unlimited run backtracks")
    tw3 = texts("wide", 3)
    t3 = texts("sig6", 3)
    shapes, small, rnd = wild_space(ctx, 600 if ctx.quick else 4000, 500 if ctx.quick else 10000)
    cf = read_ndjson(pats("ctxfill", 0))
    lim1 = vmp.with_cells(ctx.rng, renumber_ids(shapes + small + rnd), tw3, 3 if ctx.quick else 6)
    lim2 = vmp.with_cells(ctx.rng, renumber_ids(sample(ctx, cf, 500 if ctx.quick else 1801)), t3, 3 if ctx.quick else 8)
    vmp.run_limits(ctx, "wild", lim1, tw3)
    vmp.run_limits(ctx, "ctxfill", lim2, t3)
    progs = vmp.dump_progs(ctx, "wildprogs", renumber_ids(shapes + sample(ctx, small, 500 if ctx.quick else 3000) + sample(ctx, rnd, 300 if ctx.quick else 3000)))
    vmp.run_hybrid(ctx, "real_wild", progs, texts("wide", 2) if ctx.quick else tw3, use="real", sem=False, extra_invs=("Terminates", "NoRuntimeError"))
    ctx.exhaustive = False
    ctx.assumptions = ["StepBound is this framework's own generous bound ((B+1) x |prog| x (|text|+2) x (max bounded-repeat count + 2))",
                       "the default limits (10^6) cannot be reached legitimately by inputs of this size, so any runtime error by default is a finding"]
    return "model_checking"


@check("C08")
def c08(ctx):
    excl = "".join(common.excl_classes("C08"))
    ctx.rule = ("histories = complete find_iter item sequences per (pattern, text), incl. the terminating None; patterns: core grammar with \\G and \\K "
                "(exhaustive to the node bound), contexts x fillers, random; error histories under backtrack limits 0..5; "
                "non-trivial = texts with at least one yielded item (counted by TLC); model: MC_Iter for every leaf behaviour")
    mc_iter(ctx)
    apalache_iter(ctx)
    spaces = iter_spaces(ctx, "fi")
    for name, recs, tpath in spaces:
        iterp.run_iters(ctx, name, recs, tpath, "fi", excl)
    # error histories: tiny backtrack limits on VM patterns
    base = [r for r in read_ndjson(pats("ctxfill", 0))]
    eh = []
    for r in sample(ctx, base, 300 if ctx.quick else 1500):
        eh.append(dict(r, bl=ctx.rng.choice([0, 1, 2, 3, 5])))
    res = iterp.run_iters(ctx, "errhist", renumber_ids(eh), texts("sig6", 3), "fi", excl)
    if res["stats"]["error_histories"] == 0:
        raise ToolError("no error history was produced under tiny backtrack limits (vacuous)")
    probe_known(ctx, "fi", kind="iters")
    ctx.exhaustive = False
    ctx.assumptions = ITER_ASSUME
    return "model_checking"


@check("C04")
def c04(ctx):
    excl = "".join(common.excl_classes("C04"))
    ctx.rule = ("records = the same calls made on fancy_regex::Regex and regex::Regex compiled from the SAME pattern string: is_match, find, captures (all groups, "
                "every offset via *_from_pos / *_at), find_iter, captures_iter, split, splitn(0..5), replacen(0..3 x 8 replacers); TLC requires the two recordings "
                "to be equal and both equal to Api.tla over RefSem; patterns: common-syntax grammar (classes, anchors, \\b/\\B, groups, named groups, lazy "
                "quantifiers, (?i)/(?m)/(?s) nodes) exhaustive to the node bound, spelled plain, under (?U) and under (?x); non-trivial = matching cells")
    mc_iter(ctx)
    t3 = texts("sig6", 3)
    t2 = texts("sig6", 2)
    plain = []
    for n in (1, 2, 3):
        plain += read_ndjson(pats("plain", n))
    def variants(recs, frac):
        out = []
        for r in recs:
            out.append(r)
            x = ctx.rng.random()
            if x < frac:
                out.append(dict(r, variant="U"))
            elif x < 2 * frac:
                out.append(dict(r, variant="x"))
        return renumber_ids(out)
    pcf = read_ndjson(pats("plainctx", 0))
    if ctx.quick:
        spaces = [("plainctx", variants(pcf, 0.1), t3, "fi,ci,sp,co,rows"),
                  ("plain123", variants(sample(ctx, plain, 600), 0.15), t3, "fi,ci,sp,co,rows"),
                  ("plain_rp", variants(sample(ctx, plain, 400), 0.15), t2, "rp"),
                  ("random_plain", variants(randgen.random_pats(ctx.rng, "plain", 500, depth=3), 0.15), t3, "fi,ci,sp,co,rows"),
                  ("random_plain_rp", variants(randgen.random_pats(ctx.rng, "plain", 300, depth=3), 0.15), t2, "rp")]
    else:
        p4 = read_ndjson(pats("plain", 4))
        spaces = [("plainctx", variants(pcf, 0.3), t3, "fi,ci,sp,co,rows"), ("plainctx_rp", variants(pcf, 0.2), t2, "rp"),
                  ("plain123", variants(plain, 0.3), t3, "fi,ci,sp,co,rows"), ("plain_rp", variants(plain, 0.3), t2, "rp"),
                  ("plain4", variants(sample(ctx, p4, 5000), 0.2), t3, "fi,ci,sp,co,rows"),
                  ("random_plain", variants(randgen.random_pats(ctx.rng, "plain", 5000, depth=4, max_nodes=16), 0.2), t3, "fi,ci,sp,co,rows"),
                  ("random_plain_rp", variants(randgen.random_pats(ctx.rng, "plain", 2000, depth=4, max_nodes=16), 0.2), t2, "rp")]
    for name, recs, tpath, parts in spaces:
        iterp.run_iters(ctx, name, recs, tpath, "x4", excl, regex=True, parts=parts)
    probe_known(ctx, "x4", kind="iters")
    ctx.exhaustive = False
    ctx.assumptions = ITER_ASSUME + ["the regex crate (1.x from the offline cache) is the comparison partner the property names"]
    return "model_checking"


@check("C09")
def c09(ctx):
    ctx.rule = ("records = per (pattern, text): is_match, find, captures; per offset: find_from_pos, captures_from_pos; whole find_iter and captures_iter "
                "histories; TLC checks the coherence equations AMONG the recorded values (is_match <=> find is Some <=> captures is Some, captures.get(0) = find, "
                "_from_pos variants, find = find_from_pos(0) = first find_iter item, captures_iter spans = find_iter spans); unrestricted grammar "
                "(self/forward references, \\G and \\K anywhere, conditionals, nullable loops); non-trivial = cells with a match")
    mc_iter(ctx)
    t3 = texts("sig6", 3)
    tw = texts("wide", 3)
    wild = []
    for n in (1, 2, 3):
        wild += read_ndjson(pats("wild", n))
    it = []
    for n in (1, 2, 3):
        it += read_ndjson(pats("iter", n))
    if ctx.quick:
        spaces = [("shapes", read_ndjson(pats("wildshapes", 0)), tw), ("shapes_sig6", read_ndjson(pats("wildshapes", 0)), t3), ("wild123", renumber_ids(sample(ctx, wild, 1500)), t3), ("iter123", renumber_ids(sample(ctx, it, 600)), t3),
                  ("ctx2", common.ctx2(ctx, "ctx2", 300), t3),
                  ("random_wild", randgen.random_pats(ctx.rng, "wild", 800, depth=3), tw)]
    else:
        spaces = [("ctx2", common.ctx2(ctx, "ctx2", 3000), t3), ("shapes", read_ndjson(pats("wildshapes", 0)), tw), ("shapes_sig6", read_ndjson(pats("wildshapes", 0)), t3), ("wild123", renumber_ids(wild), t3), ("iter123", renumber_ids(it), t3),
                  ("wild4", renumber_ids(sample(ctx, read_ndjson(pats("wild", 4)), 20000)), t3),
                  ("random_wild", randgen.random_pats(ctx.rng, "wild", 20000, depth=4, max_nodes=16), tw)]
    for name, recs, tpath in spaces:
        iterp.run_iters(ctx, name, recs, tpath, "co", "")
    error_histories(ctx, "")
    ctx.exhaustive = False
    ctx.assumptions = ["no reference semantics involved: only equations among values recorded from the real API", "MC_Iter: on the model the two iterators are one definition"]
    return "model_checking"


@check("C10")
def c10(ctx):
    excl = "".join(common.excl_classes("C10"))
    ctx.rule = ("histories = complete piece sequences (as spans) of split and splitn(0..5) per (pattern, text), every prefix being determined by the "
                "sequence; expected = RefSplit / RefSplitN over the reference find_iter matches; non-trivial = expected rows of texts with a match; "
                "model: MC_Iter checks the Split/SplitN machines against these laws for every leaf behaviour")
    mc_iter(ctx)
    apalache_split(ctx)
    for name, recs, tpath in iter_spaces(ctx, "sp"):
        iterp.run_iters(ctx, name, recs, tpath, "sp", excl)
    error_histories(ctx, excl)
    probe_known(ctx, "sp", kind="iters")
    ctx.exhaustive = False
    ctx.assumptions = ITER_ASSUME
    return "model_checking"


@check("C11")
def c11(ctx):
    excl = "".join(common.excl_classes("C11"))
    ctx.rule = ("records = try_replacen(text, limit 0..3, 8 replacers: identity closure, constant string, NoExpand, $0, [$1], ${x1}, $$, constant closure) "
                "per (pattern, text): result string, Cow variant, Err/panic; expected = RefReplace over the reference matches with Expand.tla for templates; "
                "borrowed results are counted per (limit, replacer) and must equal the number of texts without a match")
    t2 = texts("sig6", 2)
    apalache_replace(ctx)
    spaces = iter_spaces(ctx, "rp")
    named = randgen.random_pats(ctx.rng, "named", 300 if ctx.quick else 3000, depth=3)
    for name, recs, _ in spaces + [("named", named, None)]:
        iterp.run_iters(ctx, name, recs, t2, "rp", excl)
    error_histories(ctx, excl)
    if not ctx.quick:
        t3s = os.path.join(common.workdir("C11"), "texts3sample.ndjson")
        allt3 = read_ndjson(texts("sig6", 3))
        common.write_ndjson(t3s, sample(ctx, allt3, 60))
        iterp.run_iters(ctx, "iter123_L3sample", spaces[0][1], t3s, "rp", excl)
    probe_known(ctx, "rp", kind="iters")
    ctx.exhaustive = False
    ctx.assumptions = ITER_ASSUME + ["Expand.tla gives the meaning of $-templates (checked on its own by C12)"]
    return "model_checking"


def inject_export(prof, n):
    return common.export("inject_%s_%d" % (prof, n), "inject", n, prof=prof)


@check("C03")
def c03(ctx):
    excl = "".join(common.excl_classes("C03"))
    ctx.rule = ("records = (base pattern, injected pattern): every single-site injection of (?=) (before/after every "
                "sub-expression, exported by TLC from Gram!Injections) and seeded multi-site injections; the injected "
                "pattern's rows over all texts x offsets must equal RefSem!Search of the BASE pattern (all groups); "
                "the spec-level lemma Search(injected)=Search(base) is checked by TLC on the same cells; the base patterns themselves are validated as well; "
                "delegation text: Expr::to_str of every subtree at every precedence must be what ToStr.tla prints (TraceToStr), and MC_ToStr shows that "
                "text parses back to the subtree's meaning; non-trivial = matching cells")
    t3 = texts("sig6", 3)
    single = []
    for n in (1, 2, 3):
        single += read_ndjson(inject_export("core", n))
    cf = read_ndjson(inject_export("ctxfill", 0))
    bases = read_ndjson(pats("ctxfill", 0)) + read_ndjson(pats("core", 3)) + read_ndjson(pats("core", 4))
    def multi(k):
        out = []
        for b in sample(ctx, bases, k):
            out.append(dict(ast=randgen.inject_random(ctx.rng, b["ast"], ctx.rng.randint(2, 4)), base=b["ast"], ng=b["ng"]))
        return renumber_ids(out)
    # the BASE patterns themselves belong to the property (base and injected must agree): a base that is wrong while its injected
    # spellings are right is a violation of C03 as much as the converse
    basepats = []
    for n in (1, 2, 3):
        basepats += read_ndjson(pats("core", n))
    if ctx.quick:
        spaces = [("base_pat123", renumber_ids(basepats), t3), ("inj_pat123", renumber_ids(sample(ctx, single, 2500)), t3),
                  ("inj_ctxfill", renumber_ids(sample(ctx, cf, 2500)), t3), ("inj_multi", multi(800), t3)]
    else:
        p4 = read_ndjson(inject_export("core", 4))
        spaces = [("base_pat123", renumber_ids(basepats), t3), ("base_ctxfill", read_ndjson(pats("ctxfill", 0)), t3),
                  ("inj_pat123", renumber_ids(single), t3), ("inj_ctxfill", cf, t3), ("inj_pat4", renumber_ids(sample(ctx, p4, 40000)), t3),
                  ("inj_multi", multi(10000), t3)]
    ctx.exhaustive = False
    # what is handed to the regex crate: Expr::to_str mirrored (ToStr.tla), model-checked to keep the meaning, and bound to the code
    mc_tostr(ctx)
    sp = []
    for n in (1, 2, 3):
        sp += read_ndjson(common.export("spell_core_%d" % n, "spell", n, prof="core"))
    spcf = read_ndjson(common.export("spell_ctxfill_0", "spell", 0, prof="ctxfill"))
    vocab = read_ndjson(common.export("vocab_2", "vocab", 2, timeout=3600))
    if ctx.quick:
        run_tostr_oracle(ctx, "spell", renumber_ids(sample(ctx, sp, 2500) + sample(ctx, spcf, 1500)))
        run_tostr_oracle(ctx, "vocab2", renumber_ids(sample(ctx, vocab, 3000)))
    else:
        run_tostr_oracle(ctx, "spell", renumber_ids(sp + spcf))
        run_tostr_oracle(ctx, "vocab2", vocab)
    for name, recs, tpath in spaces:
        rowsp.run_rows(ctx, name, recs, tpath, "caps", excl, lemma=True)
    probe_known(ctx, "caps")
    ctx.assumptions = ROWS_ASSUME + ["on the subset of syntax Expr::to_str prints, the regex crate reads a pattern as this library's own parser does (MC_ToStr re-parses with Parse.tla); the behaviour rows do not depend on this assumption"]
    return "model_checking"


def replay(ctx, path):
    with open(path) as f:
        v = json.load(f)
    d = v["detail"]
    if d.get("kind") == "expand":
        dd = common.workdir(ctx.prop)
        tf = os.path.join(dd, "replay.tpl.ndjson")
        common.write_ndjson(tf, [{"id": 1, "tpl": d["tpl"]}])
        prefix = os.path.join(dd, "replay.exp")
        common.clean_prefix(prefix)
        common.vh(["expand", "--templates", tf, "--fixtures", common.export("expand_fixtures", "fixtures", 0), "--out", prefix, "--shards", 1])
        rs = tlc.run_shards("TraceExpand", [dict(VH_RECS=prefix + ".0.ndjson")])
        tlc.require_clean(rs, "TraceExpand(replay)")
        rej = rs[0].tagged("REJECT")
        print(json.dumps(rej, indent=1))
        if rej:
            print("VIOLATION property=%s replay=%s" % (ctx.prop, path))
            return 1
        return 0
    if d.get("kind") == "parse":
        sub = common.Ctx(ctx.prop, ctx.tier, ctx.seed)
        run_parse_oracle(sub, "replay", [d["input"]], mode=d.get("mode"))
        print(json.dumps([v["what"] for v in sub.violations], indent=1))
        if sub.violations:
            print("VIOLATION property=%s replay=%s" % (ctx.prop, path))
            return 1
        return 0
    if d.get("kind") == "tostr":
        sub = common.Ctx(ctx.prop, ctx.tier, ctx.seed)
        run_tostr_oracle(sub, "replay", [d["input"]])
        print(json.dumps([v["what"] for v in sub.violations], indent=1))
        if sub.violations:
            print("VIOLATION property=%s replay=%s" % (ctx.prop, path))
            return 1
        return 0
    if d.get("kind") == "compile":
        common.build_harness("debug")
        sub = common.Ctx(ctx.prop, ctx.tier, ctx.seed)
        outs = compilep.run_inputs(sub, "replay", d["input"])
        print(json.dumps(outs, indent=1))
        bad = [o for o in outs if o["st"] not in ("ok", "err") or (o["st"] == "err" and o["pos"] > o["len"]) or o["ms"] > 5000 + o["len"]]
        if bad:
            print("VIOLATION property=%s replay=%s" % (ctx.prop, path))
            return 1
        return 0
    if d.get("kind") == "savelog":
        dd = common.workdir(ctx.prop)
        hf = os.path.join(dd, "replay.hists.ndjson")
        common.write_ndjson(hf, [{"h": d["h"]}])
        prefix = os.path.join(dd, "replay.sl")
        common.clean_prefix(prefix)
        common.vh(["savelog", "--hists", hf, "--nslots", d["nslots"], "--out", prefix, "--shards", 1])
        tcfg = _write_cfg("TraceSaveLog_replay", "SPECIFICATION TSpec\nCONSTANTS %s\nCHECK_DEADLOCK FALSE\nPOSTCONDITION Consumed\n" % d["consts"])
        rs = tlc.run_shards("TraceSaveLog", [dict(VH_RECS=prefix + ".0.ndjson")], cfg=tcfg)
        tlc.require_clean(rs, "TraceSaveLog(replay)")
        rej = rs[0].tagged("REJECT")
        print(json.dumps(rej, indent=1))
        if rej:
            print("VIOLATION property=%s replay=%s" % (ctx.prop, path))
            return 1
        return 0
    if d.get("kind") == "escape":
        s_ = d["s"]
        hosts = read_ndjson(common.export("escapes_2", "escapes", 2))[0]["hosts"]
        rec = dict(id=1, s=s_, hay=[s_, ["a"] + s_, s_ + s_, ["a"] + s_ + ["E"] + s_ + ["a"], s_[1:] + s_, ["a", "E"]], hosts=hosts)
        sub = common.Ctx(ctx.prop, ctx.tier, ctx.seed)
        stats, rejects, cerr = run_simple(sub, "TraceEscape", "replay", "escape", [rec], None, shards=1)
        print(json.dumps(rejects, indent=1))
        if rejects:
            print("VIOLATION property=%s replay=%s" % (ctx.prop, path))
            return 1
        return 0
    if d.get("kind") == "meta":
        sub = common.Ctx(ctx.prop, ctx.tier, ctx.seed)
        stats, rejects, cerr = run_simple(sub, "TraceMeta", "replay", "meta", [{"id": 1, "ast": d["ast"], "ng": d["ng"]}], d["texts"], shards=1)
        print(json.dumps(rejects, indent=1))
        if rejects:
            print("VIOLATION property=%s replay=%s" % (ctx.prop, path))
            return 1
        return 0
    if d.get("kind") == "iters":
        sub = common.Ctx(ctx.prop, ctx.tier, ctx.seed)
        rec = {"id": 1, "ast": d["ast"], "ng": d["ng"]}
        if d.get("bl", -1) >= 0:
            rec["bl"] = d["bl"]
        res = iterp.run_iters(sub, "replay", [rec], d["texts"], d["part"], excl="", shards=1, regex=d.get("regex", False),
                              parts=("fi,ci,sp,co,rows,rp" if d["part"] == "x4" else None))
        print(json.dumps(res["rejects"], indent=1))
        if res["rejects"]:
            print("VIOLATION property=%s replay=%s" % (ctx.prop, path))
            return 1
        return 0
    if d.get("kind") == "rows":
        sub = common.Ctx(ctx.prop, ctx.tier, ctx.seed)
        rec = {"id": 1, "ast": d["ast"], "ng": d["ng"]}
        if d.get("base") and d["base"] != d["ast"]:
            rec["base"] = d["base"]
        res = rowsp.run_rows(sub, "replay", [rec], d["texts"], d["mode"], excl="", violation=True, shards=1)
        print(json.dumps(dict(pattern=d["pat"], rejected=bool(res["rejects"]), rejects=res["rejects"]), indent=1))
        if res["rejects"]:
            print("VIOLATION property=%s replay=%s" % (ctx.prop, path))
            return 1
        return 0
    raise ToolError("unknown replay kind")
