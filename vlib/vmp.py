"""VM-level pipelines: real programs and traces (hooks) validated against VM.tla; MC_Hybrid instances."""
import json, os, time

from . import tlc
from .common import ToolError, clean_prefix, log, read_ndjson, vh, workdir, write_ndjson

WIDTH = {"E": 2, "T": 3, "Q": 4}


def boundaries(toks):
    out, b = [0], 0
    for t in toks:
        b += WIDTH.get(t, 1)
        out.append(b)
    return out


def with_cells(rng, recs, texts_path, m):
    texts = [r["t"] for r in read_ndjson(texts_path)]
    out = []
    for r in recs:
        cells = []
        for _ in range(m):
            k = rng.randrange(len(texts))
            cells.append([k + 1, rng.choice(boundaries(texts[k]))])
        out.append(dict(r, cells=cells))
    return out


def collect(rs, what):
    stats, rejects = {}, []
    for r in rs:
        st = r.tagged("STATS")
        if len(st) != 1:
            raise ToolError("%s: a shard did not report STATS" % what)
        for k, v in st[0].items():
            stats[k] = stats.get(k, 0) + v
        rejects += r.tagged("REJECT")
    return stats, rejects


def run_tracevm(ctx, name, recs, texts_path, shards=16):
    d = workdir(ctx.prop)
    asts = os.path.join(d, name + ".asts.ndjson")
    write_ndjson(asts, recs)
    prefix = os.path.join(d, name + ".vm")
    clean_prefix(prefix)
    t0 = time.time()
    vh(["vmrun", "--asts", asts, "--texts", texts_path, "--out", prefix, "--shards", shards])
    rs = tlc.run_shards("TraceVM", [dict(VH_RECS="%s.%d.ndjson" % (prefix, i)) for i in range(shards)])
    tlc.require_clean(rs, "TraceVM(%s)" % name)
    ctx.add_tlc(rs)
    stats, rejects = collect(rs, "TraceVM(%s)" % name)
    log("tracevm %s: %d runs, %d steps, %.1fs" % (name, stats["runs"], stats["steps"], time.time() - t0))
    ctx.traces += stats["ok"]
    ctx.cov.setdefault("vm_traces", {})[name] = stats
    for j in rejects:
        ctx.violation("VM run of %s: %s at trace line %s (event %s, model %s)" % (j["pat"], j["what"], j["line"], json.dumps(j["event"])[:200], json.dumps(j["model"])[:300]),
                      dict(kind="vmtrace", pat=j["pat"], got=j))
    if stats["runs"] == 0:
        raise ToolError("TraceVM(%s): no VM run was recorded" % name)
    try:
        with open(prefix + ".0.ndjson") as f:
            r0 = json.loads(f.readline())
            ctx.samples.append(dict(space=name, pattern=r0["pat"], program=[i["op"] for i in r0["prog"]], status=r0["status"], events=r0["nev"]))
    except (OSError, ValueError, KeyError):
        pass
    return stats, rejects


def run_limits(ctx, name, recs, texts_path, shards=16):
    d = workdir(ctx.prop)
    asts = os.path.join(d, name + ".asts.ndjson")
    write_ndjson(asts, recs)
    prefix = os.path.join(d, name + ".lim")
    clean_prefix(prefix)
    t0 = time.time()
    vh(["limits", "--asts", asts, "--texts", texts_path, "--out", prefix, "--shards", shards])
    rs = tlc.run_shards("TraceLimits", [dict(VH_RECS="%s.%d.ndjson" % (prefix, i)) for i in range(shards)])
    tlc.require_clean(rs, "TraceLimits(%s)" % name)
    ctx.add_tlc(rs)
    stats, rejects = collect(rs, "TraceLimits(%s)" % name)
    log("limits %s: %d records, %d limited runs, %.1fs" % (name, stats["records"], stats["limited_runs"], time.time() - t0))
    ctx.traces += stats["ok"]
    ctx.evaluations += stats["limited_runs"]
    ctx.nontrivial += stats["with_backtracking"]
    ctx.cov.setdefault("limits", {})[name] = stats
    for j in rejects:
        ctx.violation("pattern %s on %s at %s: unlimited %s bt=%s insns=%s (bound %s, model %s); offending limited run %s"
                      % (j["pat"], "".join(j["t"]), j["pos"], j["status"], j["bt"], j["insns"], j["step_bound"], j["model"], j["bad_run"]),
                      dict(kind="limits", pat=j["pat"], got=j))
    return stats, rejects


def dump_progs(ctx, name, recs):
    d = workdir(ctx.prop)
    asts = os.path.join(d, name + ".asts.ndjson")
    write_ndjson(asts, recs)
    out = os.path.join(d, name + ".progs.ndjson")
    vh(["progs", "--asts", asts, "--out", out])
    return out


HYBRID_INVS = ["NeverPanics", "AlwaysOnBoundary", "SlotsValid", "AnswerIsValid"]


def run_hybrid(ctx, name, pats_path, texts_path, use="model", sem=True, extra_invs=("Terminates", "NoRuntimeError"), workers=16):
    invs = HYBRID_INVS + list(extra_invs) + (["AgreesWithRefSem"] if sem else [])
    cfg = "SPECIFICATION Spec\n" + "".join("INVARIANT %s\n" % i for i in invs) + "CHECK_DEADLOCK FALSE\n"
    t0 = time.time()
    r = tlc.run_mc(ctx, "MC_Hybrid", cfg, name="MC_Hybrid_" + name, workers=workers, xmx="24g", timeout=7200, coverage=False,
                   env=dict(VH_PATS=pats_path, VH_TEXTS=texts_path, VH_USE=use, VH_SEM="1" if sem else "0"))
    log("hybrid %s (%s): %d distinct states, %.1fs" % (name, use, r.distinct, time.time() - t0))
    ctx.cov.setdefault("mc_hybrid", {})[name] = dict(programs=use, invariants=invs, distinct_states=r.distinct, generated=r.generated,
                                                      patterns=sum(1 for _ in open(pats_path)), texts=os.path.basename(texts_path))
    if r.distinct <= r.generated and r.depth <= 1:
        raise ToolError("MC_Hybrid(%s): no VM step was taken (vacuous instance)" % name)
    if r.violated:
        tail = "\n".join(r.out.splitlines()[-80:])
        ctx.violation("MC_Hybrid(%s, %s programs): TLC reports %s violated" % (name, use, r.violated),
                      dict(kind="mc", instance="MC_Hybrid_" + name, violated=r.violated, tlc_tail=tail))
    return r
