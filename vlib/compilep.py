"""C06 pipeline: Regex::new on every input of a space, in resource-limited child processes (debug build of the harness:
arithmetic-overflow checks on).  A child that dies (native stack overflow, allocation failure under RLIMIT_AS, CPU limit)
identifies the culprit input: it is the one after the last line the child managed to print."""
import json, os, resource, subprocess, time

from .common import HARNESS, ToolError, log, workdir, write_ndjson

VHD = os.path.join(HARNESS, "target", "debug", "vh")
AS_LIMIT = 2 * 1024 ** 3
CPU_LIMIT = 60


def _limits():
    resource.setrlimit(resource.RLIMIT_AS, (AS_LIMIT, AS_LIMIT))
    resource.setrlimit(resource.RLIMIT_CPU, (CPU_LIMIT, CPU_LIMIT + 5))
    resource.setrlimit(resource.RLIMIT_CORE, (0, 0))


def run_inputs(ctx, name, recs):
    """returns list of outcome records (one per input, in order)"""
    d = workdir(ctx.prop)
    inp = os.path.join(d, name + ".inputs.ndjson")
    write_ndjson(inp, recs)
    out = []
    start = 0
    t0 = time.time()
    restarts = 0
    while start < len(recs):
        p = subprocess.Popen([VHD, "compile", "--inputs", inp, "--from", str(start)], stdout=subprocess.PIPE, stderr=subprocess.DEVNULL,
                             universal_newlines=True, preexec_fn=_limits)
        n = 0
        try:
            so, _ = p.communicate(timeout=1800)
        except subprocess.TimeoutExpired:
            p.kill()
            so, _ = p.communicate()
        for line in so.splitlines():
            try:
                out.append(json.loads(line))
                n += 1
            except ValueError:
                break
        if p.returncode == 0 and start + n == len(recs):
            break
        # the child died on input start+n
        culprit = recs[start + n] if start + n < len(recs) else None
        if culprit is None:
            raise ToolError("compile child failed (%s) after the last input" % p.returncode)
        st = "timeout" if p.returncode in (-24, -9) else "abort"
        what = json.dumps(culprit.get("toks") or culprit.get("amp") or culprit.get("raw"))[:80]
        out.append(dict(id=culprit["id"], ix=start + n, what=what + ((" ^%d" % culprit["k"]) if "k" in culprit else ""), st=st, pos=-1, len=0, ms=0,
                        ek="child exit %s" % p.returncode))
        start = start + n + 1
        restarts += 1
        if restarts > 5000:
            raise ToolError("too many child deaths in %s" % name)
    log("compile %s: %d inputs, %.1fs, %d child deaths" % (name, len(recs), time.time() - t0, restarts))
    if len(out) != len(recs):
        raise ToolError("compile %s: %d outcomes for %d inputs" % (name, len(out), len(recs)))
    return out
