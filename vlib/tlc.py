"""Running TLC: single instances and parallel shards; parsing of its output."""
import json, os, re, shutil, subprocess, time
from concurrent.futures import ThreadPoolExecutor

VERIF = os.path.dirname(os.path.dirname(os.path.abspath(__file__)))
SPEC = os.path.join(VERIF, "spec")
WORK = os.path.join(VERIF, "work")
JAR = "/opt/veriftools/tla/tla2tools.jar:/opt/veriftools/tla/CommunityModules-deps.jar"


class ToolError(Exception):
    pass


def java_cmd(xmx="2g", gc="Serial", deque=True):
    cmd = ["java", "-Xmx" + xmx, "-Xss1g", "-XX:+Use%sGC" % gc]
    if deque:
        cmd.append("-Dtlc2.tool.queue.IStateQueue=StateDeque")
    return cmd + ["-cp", JAR, "tlc2.TLC"]


class TlcResult:
    def __init__(self):
        self.emits = []          # (tag, obj)
        self.generated = 0
        self.distinct = 0
        self.depth = 0
        self.ok = False
        self.out = ""
        self.violated = None     # name of violated invariant/property, if any
        self.wall = 0.0
        self.coverage = {}

    def tagged(self, tag):
        return [o for t, o in self.emits if t == tag]


EMIT_RE = re.compile(r'^"@@(\w+) (.*)"$')


def parse_output(out, res):
    for line in out.splitlines():
        m = EMIT_RE.match(line)
        if m:
            try:
                payload = json.loads('"' + m.group(2) + '"')
                res.emits.append((m.group(1), json.loads(payload)))
            except Exception as e:  # noqa
                raise ToolError("cannot parse TLC emit line: %s (%s)" % (line[:200], e))
            continue
        m = re.match(r"^(\d+) states generated, (\d+) distinct states found", line)
        if m:
            res.generated = int(m.group(1))
            res.distinct = int(m.group(2))
        m = re.match(r"^The depth of the complete state graph search is (\d+)", line)
        if m:
            res.depth = int(m.group(1))
        m = re.match(r"^Error: Invariant (\w+) is violated", line)
        if m:
            res.violated = m.group(1)
        m = re.match(r"^Error: Action property (\w+) is violated", line)
        if m:
            res.violated = m.group(1)
        if "Model checking completed. No error has been found." in line:
            res.ok = True
        m = re.match(r"^<(\w+) line \d+, col \d+ to line \d+, col \d+ of module (\w+)>: (\d+):(\d+)", line)
        if m:
            res.coverage[m.group(2) + "!" + m.group(1)] = (int(m.group(3)), int(m.group(4)))


def run_tlc(module, cfg=None, env=None, workers=1, xmx="2g", timeout=3600, extra=(), tag=None,
            deque=True, gc="Serial", simulate=None):
    """Run one TLC instance on spec/<module>.tla; returns TlcResult (never raises on spec errors)."""
    tag = tag or module
    metadir = os.path.join(WORK, "md", "%s-%d-%d" % (tag, os.getpid(), int(time.time() * 1000) % 10 ** 9))
    os.makedirs(metadir, exist_ok=True)
    cfgpath = cfg if (cfg and os.path.isabs(cfg)) else (cfg or module) + ".cfg"
    cmd = java_cmd(xmx=xmx, gc=gc, deque=deque) + ["-workers", str(workers), "-metadir", metadir, "-cleanup",
                                                   "-noGenerateSpecTE", "-config", cfgpath]
    if simulate:
        cmd += ["-simulate", simulate]
    cmd += list(extra) + [module + ".tla"]
    e = dict(os.environ)
    e.pop("JAVA_TOOL_OPTIONS", None)
    if env:
        e.update({k: str(v) for k, v in env.items()})
    t0 = time.time()
    try:
        p = subprocess.run(cmd, cwd=SPEC, env=e, stdout=subprocess.PIPE, stderr=subprocess.STDOUT, timeout=timeout,
                           universal_newlines=True)
    except subprocess.TimeoutExpired:
        shutil.rmtree(metadir, ignore_errors=True)
        raise ToolError("TLC timed out after %ds on %s" % (timeout, tag))
    res = TlcResult()
    res.wall = time.time() - t0
    res.out = p.stdout
    parse_output(p.stdout, res)
    shutil.rmtree(metadir, ignore_errors=True)
    res.returncode = p.returncode
    return res


def run_shards(module, envs, cfg=None, par=16, **kw):
    """Run one single-worker TLC per env dict, `par` at a time."""
    with ThreadPoolExecutor(max_workers=par) as ex:
        futs = [ex.submit(run_tlc, module, cfg, env, tag="%s-s%d" % (module, i), **kw) for i, env in enumerate(envs)]
        return [f.result() for f in futs]


def require_clean(results, what):
    """A trace-validation run must end normally; anything else is a tool error (never a verdict)."""
    for r in results:
        if not r.ok:
            tail = "\n".join(r.out.splitlines()[-25:])
            raise ToolError("%s: TLC did not complete normally:\n%s" % (what, tail))


def run_mc(ctx, module, cfg_text, name=None, workers=8, xmx="8g", timeout=3600, must_cover=(), env=None, coverage=None):
    """Model-check spec/<module>.tla under a generated cfg.  A violated invariant/property of a design-level
    instance is reported by the caller; tool trouble raises ToolError.  must_cover: action names that must
    have been taken at least once (vacuity control; otherwise ToolError)."""
    d = os.path.join(WORK, "cfg")
    os.makedirs(d, exist_ok=True)
    cfg = os.path.join(d, (name or module) + ".cfg")
    with open(cfg, "w") as f:
        f.write(cfg_text)
    # TLC's coverage collection slows deep operator evaluation down by an order of magnitude (measured: 4 s -> 160 s on
    # MC_Hybrid), so it is only switched on for the small instances whose action counts are needed for vacuity control
    if coverage is None:
        coverage = bool(must_cover)
    r = run_tlc(module, cfg=cfg, workers=workers, xmx=xmx, timeout=timeout, extra=(("-coverage", "1") if coverage else ()), tag=name or module,
                deque=False, gc="Parallel", env=env)
    if ctx is not None:
        ctx.add_tlc([r])
    if not r.ok and r.violated is None:
        tail = "\n".join(r.out.splitlines()[-25:])
        raise ToolError("%s: TLC failed:\n%s" % (name or module, tail))
    for a in (must_cover if coverage else ()):
        hits = [v for k, v in r.coverage.items() if k.endswith("!" + a)]
        if not hits or max(h[0] for h in hits) == 0:
            raise ToolError("%s: action %s was never taken (vacuous instance)" % (name or module, a))
    return r
