------------------------------ MODULE MC_ToStr ------------------------------
(***************************************************************************)
(* Delegation keeps the meaning, at design level (C03, C01): whatever      *)
(* Expr::to_str prints for an easy expression -- at any precedence -- is a *)
(* pattern that parses back to the same meaning, and the pieces that       *)
(* compile.rs concatenates into one delegate (consecutive siblings, each   *)
(* printed at precedence 1) mean their concatenation.                      *)
(* Trees: every subtree of Parse.tla's tree of every pattern of VH_PATS    *)
(* (plain spelling).  One TLC state per (pattern, subtree).                *)
(* The printed text is read back by RxRead.tla, the explicit model of how   *)
(* the regex crate reads the printed subset (stacked quantifiers nest, no  *)
(* possessive quantifiers, flag scopes (?i: (?s: (?m:).                    *)
(***************************************************************************)
EXTENDS RxRead, ToStr, Json, IOUtils
Pats == ndJsonDeserialize(IOEnv.VH_PATS)
TreeOf(i) == PP!Parse(Chars(Spell(Pats[i].ast, Plain), 1)).e
VARIABLES pi, k
Init == pi = 0 /\ k = 0
PickPattern == pi = 0 /\ pi' \in 1..Len(Pats) /\ k' = 0
PickSubtree == pi > 0 /\ k = 0 /\ k' \in 1..Len(Subtrees(TreeOf(pi))) /\ pi' = pi
Spec == Init /\ [][PickPattern \/ PickSubtree]_<<pi, k>>

Leaf == k > 0
T == Subtrees(TreeOf(pi))[k]
Means(t) == Norm(Abs(t, 0).a)
PrintedMeansSame ==
   (Leaf /\ Printable(T)) => \A p \in 0..3 : LET r == RxRead(ToStr(T, p)) IN r.ok /\ r.ast = Means(T)
\* an atom at precedence 3, a repeat-or-atom at 2, ... : the printed form can be used where the precedence says (checked by re-parsing it in such a context)
PrintedFitsContext ==
   (Leaf /\ Printable(T)) =>
      \* (the parser never builds a Repeat over an assertion or the empty expression: TreeWellFormed of MC_Parse)
      /\ PP!Repeatable(T) => LET r == RxRead(ToStr(T, 3) \o <<"*">>) IN r.ok /\ r.ast = Means([k |-> "Repeat", x |-> T, lo |-> 0, hi |-> -1, g |-> TRUE])
      /\ LET r == RxRead(<<"a">> \o ToStr(T, 2) \o <<"b">>) IN r.ok /\ r.ast = Means([k |-> "Concat", xs |-> <<PP!MkLit("a", FALSE), T, PP!MkLit("b", FALSE)>>])
      /\ LET r == RxRead(<<"a", "|">> \o ToStr(T, 1)) IN r.ok /\ r.ast = Means([k |-> "Alt", xs |-> <<PP!MkLit("a", FALSE), T>>])
RECURSIVE CatStr(_, _, _)
CatStr(xs, i, j) == IF i > j THEN <<>> ELSE ToStr(xs[i], 1) \o CatStr(xs, i + 1, j)
PiecesConcatenate ==
   (Leaf /\ T.k = "Concat") =>
      \A i \in 1..Len(T.xs) : \A j \in (i + 1)..Len(T.xs) :
         (\A q \in i..j : Printable(T.xs[q])) =>
            LET r == RxRead(CatStr(T.xs, i, j)) IN r.ok /\ r.ast = Means([k |-> "Concat", xs |-> SubSeq(T.xs, i, j)])
=============================================================================
