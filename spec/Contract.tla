------------------------------ MODULE Contract ------------------------------
(***************************************************************************)
(* The compile-time contract of Regex::new (C06) and the INPUT MODEL used  *)
(* to explore it.  A TLA+ model does not predict panics, overflow or       *)
(* allocation; what it contributes here is                                 *)
(*   - the contract as a predicate over the recorded outcome,              *)
(*   - the vocabulary of syntax fragments and the bounded sequence spaces, *)
(*   - the amplification family tok^k that stresses nesting / recursion    *)
(*     guards and size arithmetic.                                         *)
(* outcome record: [st, pos, len, ms]                                      *)
(*   st   "ok" | "err" (an Error value) | "panic" | "abort" (the child     *)
(*        process died: native stack overflow, allocation failure, limit)  *)
(*        | "timeout"                                                      *)
(*   pos  parse-error position (bytes) or -1       len  pattern bytes      *)
(*   ms   wall time of Regex::new in milliseconds                          *)
(***************************************************************************)
EXTENDS Naturals, Integers, Sequences

Vocabulary == <<
   "a", "b", "1", "@E", "@Q", " ", "\n", "-", ",", ":", "<", ">", "=", "!", "'", "P", "x", "k", "g", "#", "&", "~",
   ".", "^", "$", "|", "*", "+", "?", "(", ")", "[", "]", "{", "}", "\\",
   "(?:", "(?=", "(?!", "(?<=", "(?<!", "(?>", "(?i)", "(?x)", "(?-", "(?<n>", "(?P<n>", "(?P=n)", "(?P>n)", "(?#", "(?(", "(?(1)", "(?(<n>)", "(?", "(?i", "(?x", "(?#c)", "\\x{5f}", "\\u{ff}", "f",
   "\\1", "\\2", "\\k<n>", "\\k<-1>", "\\k<", "\\g<1>", "\\g", "\\K", "\\G", "\\b", "\\B", "\\A", "\\z", "\\Z", "\\h", "\\e", "\\d", "\\p{L}", "\\p", "\\x", "\\x{", "\\u",
   "[^", "[a-", "&&", "{2}", "{2,", "{,3}", "{1,2}", "99999999999", "18446744073709551615", "18446744073709551616", "{4294967296}",
   "{18446744073709551615}", "{3,18446744073709551615}", "\\k<99999999999>", "\\k<-99999999999>", "\\99999999999", "(?(99999999999)", "\\g<99999999999>"
>>

\* nesting / repetition fragments that are amplified: <<opener, body, closer>> -> opener^k body closer^k, and plain tok^k
AmpFamilies == <<
   <<"(", "a", ")">>, <<"(?:", "a", ")">>, <<"(?=", "a", ")">>, <<"(?<=", "a", ")">>, <<"(?>", "a", ")">>, <<"[", "a", "]">>, <<"(?(1)", "a", ")">>,
   <<"(?i:", "a", ")">>, <<"(", "", "">>, <<"[", "", "">>, <<"\\", "", "">>, <<"a|", "", "">>, <<"a", "", "">>, <<"a*", "", "">>, <<"(a)", "", "">>,
   <<"(?#", "", "">>, <<"{", "", "">>, <<"a{2}", "", "">>, <<"(?<n>", "a", ")">>, <<"\\1", "", "">>, <<"(a)\\1", "", "">>, <<"(?x) ", "", "">>, <<"a{9}", "", "">>
>>
AmpFactors == <<64, 1000, 100000>>

\* stressors (huge counts / indices) placed inside every kind of construct: <<prefix, suffix>> templates x stressors
StressTemplates == <<
   <<"", "">>, <<"(", ")">>, <<"(?:", ")">>, <<"(?=", ")">>, <<"(?!", ")">>, <<"(?<=", ")">>, <<"(?<!", ")">>, <<"(?>", ")">>,
   <<"(?(", ")b|c)">>, <<"(?(a)", "|c)">>, <<"(?(a)b|", ")">>, <<"(a)(?(1)", ")">>, <<"(a)(?(1)b|", ")">>, <<"a|", "">>, <<"", "|a">>,
   <<"(?:", ")*">>, <<"(?:", "){2}">>, <<"(?:", "){2,}">>, <<"(?:", ")?">>, <<"(?:", ")+?">>, <<"(?i:", ")">>, <<"(?x: ", " )">>,
   <<"\\b", "">>, <<"", "\\b">>, <<"(", ")\\1">>, <<"(?<n>", ")\\k<n>">>, <<"(?=)", "">>, <<"", "(?=)">>, <<"b", "b">>, <<"(?:b|", ")(?=)">> >>
Stressors == <<
   "a{18446744073709551615}", "(?:a{4294967296}){4294967296}", "a{9223372036854775807}{2}", "(?:ab){9223372036854775808}",
   "a{2,18446744073709551615}", "a{18446744073709551615,}", "a{0,18446744073709551615}", ".{18446744073709551615}", "[ab]{18446744073709551615}",
   "(a{18446744073709551615})", "a{18446744073709551614}a", "a{18446744073709551615}a{18446744073709551615}",
   "\\k<99999999999>", "\\99999999999", "(?(99999999999)a)", "\\g<99999999999>", "\\k<-99999999999>" >>

\* budget in milliseconds for a pattern of len bytes (two orders of magnitude above anything legitimate)
Budget(len) == 5000 + len

ContractHolds(o) ==
   /\ o.st \in {"ok", "err"}
   /\ (o.st = "err" => o.pos <= o.len)
   /\ o.ms <= Budget(o.len)
=============================================================================
