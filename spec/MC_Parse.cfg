SPECIFICATION Spec
CONSTANT MaxLen = 3
INVARIANT ErrorPositionInRange
INVARIANT TreeWellFormed
CHECK_DEADLOCK FALSE
