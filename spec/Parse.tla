-------------------------------- MODULE Parse --------------------------------
(***************************************************************************)
(* Mirror of src/parse.rs: the parser as a function from a pattern (a      *)
(* sequence of CHARACTERS) to either a concrete expression tree or a parse *)
(* error (kind, byte position), function by function: parse_re,            *)
(* parse_branch, parse_piece, parse_repeat, parse_atom, parse_escape,      *)
(* parse_hex, parse_class, parse_group, parse_flags, parse_conditional,    *)
(* optional_whitespace, parse_named_backref, parse_numbered_backref,       *)
(* parse_id, parse_decimal.                                                *)
(*                                                                         *)
(* Characters are one-character strings; multi-byte characters are "@E"    *)
(* (2 bytes), "@T" (3), "@Q" (4).  Cursor positions are character indices  *)
(* (0-based, like the code's byte index for ASCII); reported error         *)
(* positions are converted to bytes.                                       *)
(*                                                                         *)
(* Tree nodes mirror `enum Expr`:                                          *)
(*  Empty | Any nl | Assert a | Lit c ci | Concat xs | Alt xs | Group x |  *)
(*  Look la x | Repeat x lo hi g | Delegate inner size ci | Backref n |    *)
(*  Atomic x | KeepOut | Cont | BexCond n | Cond c y n | Subr n            *)
(* Numbers: usize::MAX is -1, anything else above 10^9 is -2.              *)
(* Parser state: flags (set), cg = curr_group, names = sequence of         *)
(* <<name, index>> (later entries override), numref = numeric_backrefs.    *)
(***************************************************************************)
EXTENDS Naturals, Integers, Sequences, FiniteSets

CW(c) == CASE c = "@E" -> 2 [] c = "@Z" -> 2 [] c = "@T" -> 3 [] c = "@K" -> 3 [] c = "@Q" -> 4 [] OTHER -> 1
RECURSIVE BytePos(_, _)
BytePos(re, i) == IF i <= 0 THEN 0 ELSE IF i > Len(re) THEN BytePos(re, Len(re)) + (i - Len(re)) ELSE BytePos(re, i - 1) + CW(re[i])
BLen(re) == BytePos(re, Len(re))

Digits == {"0", "1", "2", "3", "4", "5", "6", "7", "8", "9"}
HexDigits == Digits \cup {"a", "b", "c", "d", "e", "f", "A", "B", "C", "D", "E", "F"}
AsciiLower == {"a", "b", "c", "d", "e", "f", "g", "h", "i", "j", "k", "l", "m", "n", "o", "p", "q", "r", "s", "t", "u", "v", "w", "x", "y", "z"}
AsciiUpper == {"A", "B", "C", "D", "E", "F", "G", "H", "I", "J", "K", "L", "M", "N", "O", "P", "Q", "R", "S", "T", "U", "V", "W", "X", "Y", "Z"}
AsciiAlpha == AsciiLower \cup AsciiUpper
IdChars == AsciiAlpha \cup Digits \cup {"_", "@E", "@Z", "@T", "@K"}          \* char::is_alphanumeric or '_'
DigVal(c) == CASE c = "0" -> 0 [] c = "1" -> 1 [] c = "2" -> 2 [] c = "3" -> 3 [] c = "4" -> 4 [] c = "5" -> 5 [] c = "6" -> 6 [] c = "7" -> 7 [] c = "8" -> 8 [] c = "9" -> 9

At(re, i) == IF i >= 0 /\ i < Len(re) THEN re[i + 1] ELSE "<eof>"        \* character at 0-based index
StartsAt(re, i, s) == i + Len(s) <= Len(re) /\ SubSeq(re, i + 1, i + Len(s)) = s
Sub(re, i, j) == SubSeq(re, i + 1, j)                                    \* characters i..j-1

Ok(ix, e, st) == [ok |-> TRUE, ix |-> ix, e |-> e, st |-> st]
Err(pos, kind) == [ok |-> FALSE, pos |-> pos, kind |-> kind]

\* ---------- numbers ----------
\* usize::from_str_radix on a digit string: [ok, v] with v = value, -1 for usize::MAX, -2 for other values above 10^9
UMax == <<"1", "8", "4", "4", "6", "7", "4", "4", "0", "7", "3", "7", "0", "9", "5", "5", "1", "6", "1", "5">>
RECURSIVE StripZeros(_)
StripZeros(d) == IF Len(d) > 1 /\ d[1] = "0" THEN StripZeros(Tail(d)) ELSE d
RECURSIVE LexLeq(_, _)
LexLeq(a, b) == IF a = <<>> THEN TRUE ELSE IF DigVal(a[1]) < DigVal(b[1]) THEN TRUE ELSE IF DigVal(a[1]) > DigVal(b[1]) THEN FALSE ELSE LexLeq(Tail(a), Tail(b))
RECURSIVE SmallVal(_, _)
SmallVal(d, acc) == IF d = <<>> THEN acc ELSE SmallVal(Tail(d), 10 * acc + DigVal(d[1]))
ParseUsize(digs) ==
   IF digs = <<>> THEN [ok |-> FALSE, v |-> 0]
   ELSE LET d == StripZeros(digs) IN
        IF Len(d) <= 9 THEN [ok |-> TRUE, v |-> SmallVal(d, 0)]
        ELSE IF Len(d) > 20 \/ (Len(d) = 20 /\ ~LexLeq(d, UMax)) THEN [ok |-> FALSE, v |-> 0]
        ELSE [ok |-> TRUE, v |-> IF d = UMax THEN -1 ELSE -2]
\* isize::from_str: optional leading '-', at most i64
IMax == <<"9", "2", "2", "3", "3", "7", "2", "0", "3", "6", "8", "5", "4", "7", "7", "5", "8", "0", "7">>
ParseIsize(s) ==   \* [ok, neg, v] (v as in ParseUsize, magnitude)
   LET neg == s # <<>> /\ s[1] = "-"
       digs == IF neg THEN Tail(s) ELSE s
       allDig == digs # <<>> /\ \A j \in 1..Len(digs) : digs[j] \in Digits
       d == IF allDig THEN StripZeros(digs) ELSE <<>>
   IN IF ~allDig THEN [ok |-> FALSE, neg |-> FALSE, v |-> 0]
      ELSE IF Len(d) > 19 \/ (Len(d) = 19 /\ ~LexLeq(d, IMax)) THEN [ok |-> FALSE, neg |-> neg, v |-> 0]     \* (i64::MIN itself is not reachable with these alphabets)
      ELSE [ok |-> TRUE, neg |-> neg, v |-> IF Len(d) <= 9 THEN SmallVal(d, 0) ELSE -2]

RECURSIVE RunOf(_, _, _)
RunOf(re, i, S) == IF i < Len(re) /\ re[i + 1] \in S THEN 1 + RunOf(re, i + 1, S) ELSE 0
\* parse_decimal(s, ix): [ok, end, v]
ParseDecimal(re, ix) == LET n == RunOf(re, ix, Digits)  p == ParseUsize(Sub(re, ix, ix + n))
                        IN [ok |-> p.ok, end |-> ix + n, v |-> p.v]

\* parse_id(s[ix..], open, close, allow_relative): [ok, id, skip]
ParseId(re, ix, open, close, rel) ==
   IF ~StartsAt(re, ix, open) THEN [ok |-> FALSE, id |-> <<>>, skip |-> 0]
   ELSE LET idStart == ix + Len(open)
            relative == rel /\ At(re, idStart) = "-"
            n == IF relative THEN 1 + RunOf(re, idStart + 1, Digits) ELSE RunOf(re, idStart, IdChars)
            atEnd == idStart + n >= Len(re)
            idLen == IF ~atEnd THEN (IF StartsAt(re, idStart + n, close) THEN n ELSE -1)
                     ELSE (IF close = <<>> THEN Len(re) - idStart ELSE -1)
        IN IF idLen <= 0 THEN [ok |-> FALSE, id |-> <<>>, skip |-> 0]
           ELSE [ok |-> TRUE, id |-> Sub(re, idStart, idStart + idLen), skip |-> Len(open) + idLen + Len(close)]

\* ---------- parser state ----------
Flag(st, f) == f \in st.flags
SetFlag(st, f, neg) == [st EXCEPT !.flags = IF neg THEN @ \ {f} ELSE @ \cup {f}]
RECURSIVE LookupName(_, _, _)
LookupName(names, id, j) == IF j = 0 THEN -1 ELSE IF names[j][1] = id THEN names[j][2] ELSE LookupName(names, id, j - 1)
NameIdx(st, id) == LookupName(st.names, id, Len(st.names))
InitSt == [flags |-> {"u"}, cg |-> 0, names |-> <<>>, numref |-> FALSE, brefs |-> {}]     \* brefs = ExprTree::backrefs (groups some reference names)

\* ---------- optional_whitespace ----------
\* returns [ok, ix] or an error
RECURSIVE SkipComment(_, _), OptWs(_, _, _), FindNL(_, _)
FindNL(re, i) == IF i >= Len(re) THEN -1 ELSE IF re[i + 1] = "\n" THEN i ELSE FindNL(re, i + 1)
SkipComment(re, i) ==   \* i just after "(?#"
   IF i >= Len(re) THEN Err(BLen(re), "UnclosedOpenParen")
   ELSE IF re[i + 1] = ")" THEN [ok |-> TRUE, ix |-> i + 1]
   ELSE IF re[i + 1] = "\\" THEN SkipComment(re, i + 2)
   ELSE SkipComment(re, i + 1)
OptWs(re, i, st) ==
   IF i >= Len(re) THEN [ok |-> TRUE, ix |-> Len(re)]
   ELSE LET c == re[i + 1] IN
        IF c = "#" /\ Flag(st, "x") THEN (LET nl == FindNL(re, i) IN IF nl < 0 THEN [ok |-> TRUE, ix |-> Len(re)] ELSE OptWs(re, nl + 1, st))
        ELSE IF c \in {" ", "\r", "\n", "\t"} /\ Flag(st, "x") THEN OptWs(re, i + 1, st)
        ELSE IF StartsAt(re, i, <<"(", "?", "#">>) THEN (LET r == SkipComment(re, i + 3) IN IF r.ok THEN OptWs(re, r.ix, st) ELSE r)
        ELSE [ok |-> TRUE, ix |-> i]

\* ---------- nodes ----------
Empty == [k |-> "Empty"]
MkLit(c, ci) == [k |-> "Lit", c |-> c, ci |-> ci]
MkDelegate(inner, size, ci) == [k |-> "Delegate", inner |-> inner, size |-> size, ci |-> ci]
MkLook(x, la) == [k |-> "Look", la |-> la, x |-> x]
Repeatable(e) == e.k \notin {"Look", "Empty", "Assert"}

\* regex_syntax::escape_into for one character
Meta == {"\\", ".", "+", "*", "?", "(", ")", "|", "[", "]", "{", "}", "^", "$", "#", "&", "-", "~"}
EscapeInto(c) == IF c \in Meta THEN <<"\\", c>> ELSE <<c>>

HexVal(c) == CASE c \in Digits -> DigVal(c) [] c \in {"a", "A"} -> 10 [] c \in {"b", "B"} -> 11 [] c \in {"c", "C"} -> 12
               [] c \in {"d", "D"} -> 13 [] c \in {"e", "E"} -> 14 [] c \in {"f", "F"} -> 15
RECURSIVE HexNum6(_, _)
HexNum6(s, acc) == IF s = <<>> THEN acc ELSE HexNum6(Tail(s), 16 * acc + HexVal(s[1]))
\* value of up to 8 hex digits without leaving 32-bit arithmetic: anything above 6 significant digits is beyond U+10FFFF anyway
HexNum(s, acc) == LET d == StripZeros(s) IN IF Len(d) > 6 THEN 16777216 ELSE HexNum6(d, 0)
\* the character with a given code point, as a token of this model (generated table for printable ASCII)
HexDig(n) == CASE n = 0 -> "0" [] n = 1 -> "1" [] n = 2 -> "2" [] n = 3 -> "3" [] n = 4 -> "4" [] n = 5 -> "5" [] n = 6 -> "6" [] n = 7 -> "7" [] n = 8 -> "8"
               [] n = 9 -> "9" [] n = 10 -> "a" [] n = 11 -> "b" [] n = 12 -> "c" [] n = 13 -> "d" [] n = 14 -> "e" [] n = 15 -> "f"
RECURSIVE HexStr(_)
HexStr(n) == IF n < 16 THEN HexDig(n) ELSE HexStr(n \div 16) \o HexDig(n % 16)
CharOf(cp) ==
   CASE cp = 32 -> " "
     [] cp = 33 -> "!"
     [] cp = 34 -> "\""
     [] cp = 35 -> "#"
     [] cp = 36 -> "$"
     [] cp = 37 -> "%"
     [] cp = 38 -> "&"
     [] cp = 39 -> "'"
     [] cp = 40 -> "("
     [] cp = 41 -> ")"
     [] cp = 42 -> "*"
     [] cp = 43 -> "+"
     [] cp = 44 -> ","
     [] cp = 45 -> "-"
     [] cp = 46 -> "."
     [] cp = 47 -> "/"
     [] cp = 48 -> "0"
     [] cp = 49 -> "1"
     [] cp = 50 -> "2"
     [] cp = 51 -> "3"
     [] cp = 52 -> "4"
     [] cp = 53 -> "5"
     [] cp = 54 -> "6"
     [] cp = 55 -> "7"
     [] cp = 56 -> "8"
     [] cp = 57 -> "9"
     [] cp = 58 -> ":"
     [] cp = 59 -> ";"
     [] cp = 60 -> "<"
     [] cp = 61 -> "="
     [] cp = 62 -> ">"
     [] cp = 63 -> "?"
     [] cp = 64 -> "@"
     [] cp = 65 -> "A"
     [] cp = 66 -> "B"
     [] cp = 67 -> "C"
     [] cp = 68 -> "D"
     [] cp = 69 -> "E"
     [] cp = 70 -> "F"
     [] cp = 71 -> "G"
     [] cp = 72 -> "H"
     [] cp = 73 -> "I"
     [] cp = 74 -> "J"
     [] cp = 75 -> "K"
     [] cp = 76 -> "L"
     [] cp = 77 -> "M"
     [] cp = 78 -> "N"
     [] cp = 79 -> "O"
     [] cp = 80 -> "P"
     [] cp = 81 -> "Q"
     [] cp = 82 -> "R"
     [] cp = 83 -> "S"
     [] cp = 84 -> "T"
     [] cp = 85 -> "U"
     [] cp = 86 -> "V"
     [] cp = 87 -> "W"
     [] cp = 88 -> "X"
     [] cp = 89 -> "Y"
     [] cp = 90 -> "Z"
     [] cp = 91 -> "["
     [] cp = 92 -> "\\"
     [] cp = 93 -> "]"
     [] cp = 94 -> "^"
     [] cp = 95 -> "_"
     [] cp = 96 -> "`"
     [] cp = 97 -> "a"
     [] cp = 98 -> "b"
     [] cp = 99 -> "c"
     [] cp = 100 -> "d"
     [] cp = 101 -> "e"
     [] cp = 102 -> "f"
     [] cp = 103 -> "g"
     [] cp = 104 -> "h"
     [] cp = 105 -> "i"
     [] cp = 106 -> "j"
     [] cp = 107 -> "k"
     [] cp = 108 -> "l"
     [] cp = 109 -> "m"
     [] cp = 110 -> "n"
     [] cp = 111 -> "o"
     [] cp = 112 -> "p"
     [] cp = 113 -> "q"
     [] cp = 114 -> "r"
     [] cp = 115 -> "s"
     [] cp = 116 -> "t"
     [] cp = 117 -> "u"
     [] cp = 118 -> "v"
     [] cp = 119 -> "w"
     [] cp = 120 -> "x"
     [] cp = 121 -> "y"
     [] cp = 122 -> "z"
     [] cp = 123 -> "{"
     [] cp = 124 -> "|"
     [] cp = 125 -> "}"
     [] cp = 126 -> "~"
     [] cp = 10 -> "\n"
     [] cp = 13 -> "\r"
     [] cp = 9 -> "\t"
     [] cp = 201 -> "@Z"
     [] cp = 233 -> "@E"
     [] cp = 3585 -> "@K"
     [] cp = 12354 -> "@T"
     [] cp = 128512 -> "@Q"
     [] OTHER -> "<x" \o HexStr(cp) \o ">"
ValidCodepoint(cp) == cp >= 0 /\ cp <= 1114111 /\ ~(cp >= 55296 /\ cp <= 57343)

RECURSIVE PRe(_, _, _, _), PAlts(_, _, _, _), PAltsMore(_, _, _, _, _), PBranch(_, _, _, _, _), PPiece(_, _, _, _), PAtom(_, _, _, _),
          PGroup(_, _, _, _), PFlags(_, _, _, _), PFlagsLoop(_, _, _, _, _, _, _), PCond(_, _, _, _), PClassLoop(_, _, _, _, _, _)

\* ---------- back references ----------
PNumberedBackref(re, ix, st, mk) ==
   LET d == ParseDecimal(re, ix) IN
   IF d.ok /\ d.v >= 0 /\ d.v < BLen(re) \div 2
   THEN Ok(d.end, [k |-> mk, n |-> d.v], [st EXCEPT !.numref = TRUE, !.brefs = @ \cup {d.v}])
   ELSE Err(BytePos(re, ix), "InvalidBackref")
PNamedBackref(re, ix, st, open, close, rel, mk) ==
   LET p == ParseId(re, ix, open, close, rel) IN
   IF ~p.ok THEN Err(BytePos(re, ix), "InvalidGroupName")
   ELSE LET byName == NameIdx(st, p.id)
            num == ParseIsize(p.id)
            group == IF byName >= 0 THEN byName
                     ELSE IF ~num.ok THEN -9
                     ELSE IF ~num.neg THEN num.v                                     \* -2 = huge
                     ELSE IF num.v = -2 THEN -9 ELSE (IF st.cg - num.v + 1 >= 0 THEN st.cg - num.v + 1 ELSE -9)
        IN IF group >= 0 /\ group < BLen(re) \div 2 THEN Ok(ix + p.skip, [k |-> mk, n |-> group], [st EXCEPT !.brefs = @ \cup {group}])
           ELSE Err(BytePos(re, ix), "InvalidGroupNameBackref")

\* ---------- escapes ----------
PHex(re, ix, digits, st) ==     \* ix after \x, \u or \U
   IF ix >= Len(re) THEN Err(BytePos(re, ix), "InvalidHex")
   ELSE LET fixed == ix + digits <= Len(re) /\ \A j \in (ix + 1)..(ix + digits) : re[j] \in HexDigits IN
        IF fixed THEN (LET cp == HexNum(Sub(re, ix, ix + digits), 0) IN
                       IF ValidCodepoint(cp) THEN Ok(ix + digits, MkLit(CharOf(cp), Flag(st, "i")), st) ELSE Err(BytePos(re, ix), "InvalidCodepointValue"))
        ELSE IF re[ix + 1] = "{"
        THEN LET n == RunOf(re, ix + 1, HexDigits)
                 m == IF n > 8 THEN 8 ELSE n
                 stop == ix + 1 + m          \* first position that is not one of at most 8 hex digits
             IN IF stop >= Len(re) THEN Err(BytePos(re, ix), "InvalidHex")
                ELSE IF m > 0 /\ re[stop + 1] = "}"
                THEN (LET cp == HexNum(Sub(re, ix + 1, stop), 0) IN
                      IF ValidCodepoint(cp) THEN Ok(stop + 1, MkLit(CharOf(cp), Flag(st, "i")), st) ELSE Err(BytePos(re, ix), "InvalidCodepointValue"))
                ELSE Err(BytePos(re, ix), "InvalidHex")
        ELSE Err(BytePos(re, ix), "InvalidHex")

RECURSIVE UnicodeNameEnd(_, _)
UnicodeNameEnd(re, i) == IF i >= Len(re) THEN -1 ELSE IF re[i + 1] = "}" THEN i + 1 ELSE UnicodeNameEnd(re, i + 1)

\* ix points to the backslash
PEscape(re, ix, inClass, st) ==
   IF ix + 1 >= Len(re) THEN Err(BytePos(re, ix), "TrailingBackslash")
   ELSE
   LET b == re[ix + 2]
       end == ix + 2
       ci == Flag(st, "i")
   IN
   IF b \in Digits THEN PNumberedBackref(re, ix + 1, st, "Backref")
   ELSE IF b = "k" /\ ~inClass THEN (IF At(re, end) = "'" THEN PNamedBackref(re, end, st, <<"'">>, <<"'">>, TRUE, "Backref")
                                     ELSE PNamedBackref(re, end, st, <<"<">>, <<">">>, TRUE, "Backref"))
   ELSE IF b = "A" /\ ~inClass THEN Ok(end, [k |-> "Assert", a |-> "StartText"], st)
   ELSE IF b = "z" /\ ~inClass THEN Ok(end, [k |-> "Assert", a |-> "EndText"], st)
   ELSE IF b = "Z" /\ ~inClass THEN Ok(end, MkLook(MkDelegate(<<"\n", "*", "$">>, 0, FALSE), "LA"), st)
   ELSE IF b \in {"b", "B"} /\ ~inClass
        THEN (IF At(re, end) = "{" THEN Err(BytePos(re, ix), "InvalidEscape")
              ELSE Ok(end, [k |-> "Assert", a |-> IF b = "b" THEN "WordBoundary" ELSE "NotWordBoundary"], st))
   ELSE IF b = "<" /\ ~inClass THEN Ok(end, [k |-> "Assert", a |-> "LeftWordBoundary"], st)
   ELSE IF b = ">" /\ ~inClass THEN Ok(end, [k |-> "Assert", a |-> "RightWordBoundary"], st)
   ELSE IF b \in {"d", "D", "s", "S", "w", "W"} THEN Ok(end, MkDelegate(<<"\\", b>>, 1, ci), st)
   ELSE IF b \in {"h", "H"} THEN Ok(end, MkDelegate(IF b = "h" THEN <<"[", "0", "-", "9", "A", "-", "F", "a", "-", "f", "]">>
                                                              ELSE <<"[", "^", "0", "-", "9", "A", "-", "F", "a", "-", "f", "]">>, 1, FALSE), st)
   ELSE IF b = "x" THEN PHex(re, end, 2, st)
   ELSE IF b = "u" THEN PHex(re, end, 4, st)
   ELSE IF b = "U" THEN PHex(re, end, 8, st)
   ELSE IF b \in {"p", "P"} /\ end # Len(re)
        THEN (IF re[end + 1] = "{"
              THEN (LET e2 == UnicodeNameEnd(re, end + 1) IN
                    IF e2 < 0 THEN Err(BytePos(re, ix), "UnclosedUnicodeName") ELSE Ok(e2, MkDelegate(Sub(re, ix, e2), 1, ci), st))
              ELSE Ok(end + 1, MkDelegate(Sub(re, ix, end + 1), 1, ci), st))
   ELSE IF b = "K" /\ ~inClass THEN Ok(end, [k |-> "KeepOut"], st)
   ELSE IF b = "G" /\ ~inClass THEN Ok(end, [k |-> "Cont"], st)
   ELSE IF b = "g" /\ ~inClass
        THEN (IF end = Len(re) THEN Err(BytePos(re, ix), "InvalidEscape")
              ELSE IF re[end + 1] \in Digits THEN PNumberedBackref(re, end, st, "Subr")
              ELSE IF re[end + 1] = "'" THEN PNamedBackref(re, end, st, <<"'">>, <<"'">>, TRUE, "Subr")
              ELSE PNamedBackref(re, end, st, <<"<">>, <<">">>, TRUE, "Subr"))
   ELSE
   CASE b = "a" -> Ok(end, MkLit("<x7>", FALSE), st)
     [] b = "b" -> Ok(end, MkLit("<x8>", FALSE), st)
     [] b = "f" -> Ok(end, MkLit("<xc>", FALSE), st)
     [] b = "n" -> Ok(end, MkLit("\n", FALSE), st)
     [] b = "r" -> Ok(end, MkLit("\r", FALSE), st)
     [] b = "t" -> Ok(end, MkLit("\t", FALSE), st)
     [] b = "v" -> Ok(end, MkLit("<xb>", FALSE), st)
     [] b = "e" -> Ok(end, MkLit("<x1b>", FALSE), st)
     [] b = " " -> Ok(end, MkLit(" ", FALSE), st)
     [] OTHER -> IF b \in AsciiAlpha /\ b \notin {"k", "A", "z", "b", "B", "K", "G"}
                 THEN Err(BytePos(re, ix), "InvalidEscape")
                 ELSE Ok(end, MkLit(b, FALSE), st)

\* ---------- classes ----------
\* ix = next position, cls = accumulated class text, nest = open brackets
PClassLoop(re, ix, cls, nest, st, ix0) ==
   IF ix >= Len(re) THEN Err(BytePos(re, ix), "InvalidClass")
   ELSE LET c == re[ix + 1] IN
        IF c = "\\"
        THEN (LET r == PEscape(re, ix, TRUE, st) IN
              IF ~r.ok THEN r
              ELSE IF r.e.k = "Lit" THEN PClassLoop(re, r.ix, cls \o EscapeInto(r.e.c), nest, r.st, ix0)
              ELSE IF r.e.k = "Delegate" THEN PClassLoop(re, r.ix, cls \o r.e.inner, nest, r.st, ix0)
              ELSE Err(BytePos(re, ix), "InvalidClass"))
        ELSE IF c = "[" THEN PClassLoop(re, ix + 1, Append(cls, "["), nest + 1, st, ix0)
        ELSE IF c = "]" THEN (IF nest = 1 THEN Ok(ix + 1, MkDelegate(Append(cls, "]"), 1, Flag(st, "i")), st)
                              ELSE PClassLoop(re, ix + 1, Append(cls, "]"), nest - 1, st, ix0))
        ELSE PClassLoop(re, ix + 1, Append(cls, c), nest, st, ix0)
PClass(re, ix, st) ==
   LET i1 == ix + 1
       neg == At(re, i1) = "^"
       i2 == IF neg THEN i1 + 1 ELSE i1
       rb == At(re, i2) = "]"
       i3 == IF rb THEN i2 + 1 ELSE i2
       cls == <<"[">> \o (IF neg THEN <<"^">> ELSE <<>>) \o (IF rb THEN <<"]">> ELSE <<>>)
   IN PClassLoop(re, i3, cls, 1, st, ix)

\* ---------- repeat {n,m} ----------
PRepeat(re, ix, st) ==     \* ix at '{' ; [ok, next, lo, hi]
   LET w1 == OptWs(re, ix + 1, st) IN
   IF ~w1.ok THEN [ok |-> FALSE] ELSE
   IF w1.ix = Len(re) THEN [ok |-> FALSE] ELSE
   LET comma0 == re[w1.ix + 1] = ","
       d == ParseDecimal(re, w1.ix)
   IN IF ~comma0 /\ ~d.ok THEN [ok |-> FALSE] ELSE
   LET lo == IF comma0 THEN 0 ELSE d.v
       end1 == IF comma0 THEN w1.ix ELSE d.end
       w2 == OptWs(re, end1, st)
   IN IF ~w2.ok THEN [ok |-> FALSE] ELSE
      IF w2.ix = Len(re) THEN [ok |-> FALSE] ELSE
      LET c == re[w2.ix + 1] IN
      IF c = "}" THEN (LET w3 == OptWs(re, w2.ix, st) IN [ok |-> TRUE, next |-> w2.ix + 1, lo |-> lo, hi |-> lo])
      ELSE IF c = ","
      THEN (LET w3 == OptWs(re, w2.ix + 1, st) IN
            IF ~w3.ok THEN [ok |-> FALSE] ELSE
            LET d2 == ParseDecimal(re, w3.ix)
                hi == IF d2.ok THEN d2.v ELSE -1
                end2 == IF d2.ok THEN d2.end ELSE w3.ix
                w4 == OptWs(re, end2, st)
            IN IF ~w4.ok THEN [ok |-> FALSE]
               ELSE IF w4.ix = Len(re) \/ re[w4.ix + 1] # "}" THEN [ok |-> FALSE]
               ELSE [ok |-> TRUE, next |-> w4.ix + 1, lo |-> lo, hi |-> hi])
      ELSE [ok |-> FALSE]

\* ---------- atoms, pieces, branches ----------
PAtom(re, ix0, depth, st) ==
   LET w == OptWs(re, ix0, st) IN
   IF ~w.ok THEN w ELSE
   LET ix == w.ix IN
   IF ix = Len(re) THEN Ok(ix, Empty, st)
   ELSE LET c == re[ix + 1] IN
   CASE c = "." -> Ok(ix + 1, [k |-> "Any", nl |-> Flag(st, "s")], st)
     [] c = "^" -> Ok(ix + 1, [k |-> "Assert", a |-> IF Flag(st, "m") THEN "StartLine" ELSE "StartText"], st)
     [] c = "$" -> Ok(ix + 1, [k |-> "Assert", a |-> IF Flag(st, "m") THEN "EndLine" ELSE "EndText"], st)
     [] c = "(" -> PGroup(re, ix, depth, st)
     [] c = "\\" -> PEscape(re, ix, FALSE, st)
     [] c \in {"+", "*", "?", "|", ")"} -> Ok(ix, Empty, st)
     [] c = "[" -> PClass(re, ix, st)
     [] OTHER -> Ok(ix + 1, MkLit(c, Flag(st, "i")), st)

PPiece(re, ix0, depth, st0) ==
   LET a == PAtom(re, ix0, depth, st0) IN
   IF ~a.ok THEN a ELSE
   LET st == a.st
       w == OptWs(re, a.ix, st)
   IN IF ~w.ok THEN w ELSE
   LET ix == w.ix IN
   IF ix >= Len(re) THEN Ok(ix, a.e, st)
   ELSE LET c == re[ix + 1]
            rep == IF c = "{" THEN PRepeat(re, ix, st) ELSE [ok |-> FALSE]
            isQ == c \in {"?", "*", "+"} \/ (c = "{" /\ rep.ok)
        IN IF ~isQ THEN Ok(ix, a.e, st)
           ELSE LET lo == CASE c = "?" -> 0 [] c = "*" -> 0 [] c = "+" -> 1 [] OTHER -> rep.lo
                    hi == CASE c = "?" -> 1 [] c = "*" -> -1 [] c = "+" -> -1 [] OTHER -> rep.hi
                    qix == IF c = "{" THEN rep.next - 1 ELSE ix
                IN IF ~Repeatable(a.e) THEN Err(BytePos(re, qix), "TargetNotRepeatable")
                   ELSE LET w2 == OptWs(re, qix + 1, st) IN
                        IF ~w2.ok THEN w2 ELSE
                        LET lazy == At(re, w2.ix) = "?"
                            i2 == IF lazy THEN w2.ix + 1 ELSE w2.ix
                            greedy == (~lazy) # Flag(st, "U")
                            node == [k |-> "Repeat", x |-> a.e, lo |-> lo, hi |-> hi, g |-> greedy]
                        IN IF At(re, i2) = "+" THEN Ok(i2 + 1, [k |-> "Atomic", x |-> node], st) ELSE Ok(i2, node, st)

\* parse_branch: children accumulates the non-empty pieces
PBranch(re, ix, depth, st, children) ==
   IF ix >= Len(re) THEN Ok(ix, children, st)
   ELSE LET p == PPiece(re, ix, depth, st) IN
        IF ~p.ok THEN p
        ELSE IF p.ix = ix THEN Ok(ix, children, p.st)
        ELSE PBranch(re, p.ix, depth, p.st, IF p.e = Empty THEN children ELSE Append(children, p.e))
BranchExpr(cs) == IF Len(cs) = 0 THEN Empty ELSE IF Len(cs) = 1 THEN cs[1] ELSE [k |-> "Concat", xs |-> cs]
PBranchE(re, ix, depth, st) == LET b == PBranch(re, ix, depth, st, <<>>) IN IF b.ok THEN Ok(b.ix, BranchExpr(b.e), b.st) ELSE b

\* parse_alternatives: [ok, ix, e = sequence of branches, st]
PAltsMore(re, ix, depth, st, acc) ==
   IF At(re, ix) = "|"
   THEN LET b == PBranchE(re, ix + 1, depth, st) IN
        IF ~b.ok THEN b ELSE
        LET w == OptWs(re, b.ix, b.st) IN IF ~w.ok THEN w ELSE PAltsMore(re, w.ix, depth, b.st, Append(acc, b.e))
   ELSE Ok(ix, acc, st)
PAlts(re, ix, depth, st) ==
   LET b == PBranchE(re, ix, depth, st) IN
   IF ~b.ok THEN b ELSE
   LET w == OptWs(re, b.ix, b.st) IN
   IF ~w.ok THEN w ELSE
   IF At(re, w.ix) = "|" THEN PAltsMore(re, w.ix, depth, b.st, <<b.e>>)
   ELSE IF b.st.numref /\ b.st.names # <<>> THEN [ok |-> FALSE, pos |-> -1, kind |-> "NamedBackrefOnly"]
   ELSE Ok(w.ix, <<b.e>>, b.st)
PRe(re, ix, depth, st) ==
   LET a == PAlts(re, ix, depth, st) IN
   IF ~a.ok THEN a ELSE Ok(a.ix, IF Len(a.e) > 1 THEN [k |-> "Alt", xs |-> a.e] ELSE a.e[1], a.st)

CloseParen(re, ix, st) ==
   LET w == OptWs(re, ix, st) IN
   IF ~w.ok THEN w
   ELSE IF w.ix = Len(re) THEN Err(BytePos(re, w.ix), "UnclosedOpenParen")
   ELSE IF re[w.ix + 1] # ")" THEN Err(BytePos(re, w.ix), "GeneralParseError")
   ELSE [ok |-> TRUE, ix |-> w.ix + 1]

\* ---------- groups ----------
PGroup(re, ix0, depth0, st) ==
   LET depth == depth0 + 1 IN
   IF depth >= 64 THEN Err(BytePos(re, ix0), "RecursionExceeded") ELSE
   LET w == OptWs(re, ix0 + 1, st) IN
   IF ~w.ok THEN w ELSE
   LET ix == w.ix
       S(s) == StartsAt(re, ix, s)
       Body(skip, st1, kind, la) ==
          LET r == PRe(re, ix + skip, depth, st1) IN
          IF ~r.ok THEN r ELSE
          LET c == CloseParen(re, r.ix, r.st) IN
          IF ~c.ok THEN c
          ELSE Ok(c.ix, CASE kind = "look" -> MkLook(r.e, la) [] kind = "atomic" -> [k |-> "Atomic", x |-> r.e] [] OTHER -> [k |-> "Group", x |-> r.e], r.st)
       Named(off) ==   \* (?<name> / (?P<name> : off = offset of '<' from ix
          LET st1 == [st EXCEPT !.cg = @ + 1]
              p == ParseId(re, ix + off, <<"<">>, <<">">>, FALSE)
          IN IF ~p.ok THEN Err(BytePos(re, ix), "InvalidGroupName")
             ELSE Body(p.skip + off, [st1 EXCEPT !.names = Append(@, <<p.id, st1.cg>>)], "group", "")
   IN
   IF S(<<"?", "=">>) THEN Body(2, st, "look", "LA")
   ELSE IF S(<<"?", "!">>) THEN Body(2, st, "look", "LAN")
   ELSE IF S(<<"?", "<", "=">>) THEN Body(3, st, "look", "LB")
   ELSE IF S(<<"?", "<", "!">>) THEN Body(3, st, "look", "LBN")
   ELSE IF S(<<"?", "<">>) THEN Named(1)
   ELSE IF S(<<"?", "P", "<">>) THEN Named(2)
   ELSE IF S(<<"?", "P", "=">>) THEN PNamedBackref(re, ix + 3, st, <<>>, <<")">>, FALSE, "Backref")
   ELSE IF S(<<"?", ">">>) THEN Body(2, st, "atomic", "")
   ELSE IF S(<<"?", "(">>) THEN PCond(re, ix + 2, depth, st)
   ELSE IF S(<<"?", "P", ">">>) THEN PNamedBackref(re, ix + 3, st, <<>>, <<")">>, FALSE, "Subr")
   ELSE IF S(<<"?">>) THEN PFlags(re, ix, depth, st)
   ELSE Body(0, [st EXCEPT !.cg = @ + 1], "group", "")

\* ---------- flags ----------
PFlagsLoop(re, ix0, start, neg, old, depth, st) ==
   LET w == OptWs(re, ix0, st) IN
   IF ~w.ok THEN w ELSE
   LET ix == w.ix IN
   IF ix = Len(re) THEN Err(BytePos(re, ix), "UnclosedOpenParen") ELSE
   LET b == re[ix + 1] IN
   CASE b = "i" -> PFlagsLoop(re, ix + 1, start, neg, old, depth, SetFlag(st, "i", neg))
     [] b = "m" -> PFlagsLoop(re, ix + 1, start, neg, old, depth, SetFlag(st, "m", neg))
     [] b = "s" -> PFlagsLoop(re, ix + 1, start, neg, old, depth, SetFlag(st, "s", neg))
     [] b = "U" -> PFlagsLoop(re, ix + 1, start, neg, old, depth, SetFlag(st, "U", neg))
     [] b = "x" -> PFlagsLoop(re, ix + 1, start, neg, old, depth, SetFlag(st, "x", neg))
     [] b = "u" -> IF neg THEN Err(BytePos(re, ix), "NonUnicodeUnsupported") ELSE PFlagsLoop(re, ix + 1, start, neg, old, depth, st)
     [] b = "-" -> IF neg THEN Err(BytePos(re, start), "UnknownFlag") ELSE PFlagsLoop(re, ix + 1, start, TRUE, old, depth, st)
     [] b = ")" -> IF ix = start \/ (neg /\ ix = start + 1) THEN Err(BytePos(re, start), "UnknownFlag") ELSE Ok(ix + 1, Empty, st)
     [] b = ":" -> IF neg /\ ix = start + 1 THEN Err(BytePos(re, start), "UnknownFlag")
                   ELSE (LET r == PRe(re, ix + 1, depth, st) IN
                         IF ~r.ok THEN r
                         ELSE IF r.ix = Len(re) THEN Err(BytePos(re, r.ix), "UnclosedOpenParen")
                         ELSE IF re[r.ix + 1] # ")" THEN Err(BytePos(re, r.ix), "GeneralParseError")
                         ELSE Ok(r.ix + 1, r.e, [r.st EXCEPT !.flags = old]))
     [] OTHER -> Err(BytePos(re, start), "UnknownFlag")
PFlags(re, ix, depth, st) == PFlagsLoop(re, ix + 1, ix + 1, FALSE, st.flags, depth, st)

\* ---------- conditionals ----------
PCond(re, ix, depth, st) ==      \* ix after "(?("
   IF ix >= Len(re) THEN Err(BytePos(re, ix), "UnclosedOpenParen") ELSE
   LET b == re[ix + 1]
       c == IF b \in Digits THEN PNumberedBackref(re, ix, st, "Backref")
            ELSE IF b = "'" THEN PNamedBackref(re, ix, st, <<"'">>, <<"'">>, TRUE, "Backref")
            ELSE IF b = "<" THEN PNamedBackref(re, ix, st, <<"<">>, <<">">>, TRUE, "Backref")
            ELSE PRe(re, ix, depth, st)
   IN IF ~c.ok THEN c ELSE
   LET cp == CloseParen(re, c.ix, c.st) IN
   IF ~cp.ok THEN cp ELSE
   LET next == cp.ix
       a == PAlts(re, next, depth, c.st)
   IN IF ~a.ok THEN a ELSE
   IF a.ix = next
   THEN (IF c.e.k = "Backref"
         THEN (LET cl == CloseParen(re, a.ix, a.st) IN IF ~cl.ok THEN cl ELSE Ok(cl.ix, [k |-> "BexCond", n |-> c.e.n], a.st))
         ELSE Err(BytePos(re, a.ix), "GeneralParseError"))
   ELSE LET y == a.e[1]
            n == IF Len(a.e) = 1 THEN Empty ELSE IF Len(a.e) = 2 THEN a.e[2] ELSE [k |-> "Alt", xs |-> Tail(a.e)]
            cond == IF c.e.k = "Backref" THEN [k |-> "BexCond", n |-> c.e.n] ELSE c.e
            cl == CloseParen(re, a.ix, a.st)
        IN IF ~cl.ok THEN cl
           ELSE Ok(cl.ix, IF y = Empty /\ n = Empty THEN cond ELSE [k |-> "Cond", c |-> cond, y |-> y, n |-> n], a.st)

(***************************************************************************)
(* Parser::parse                                                           *)
(***************************************************************************)
Parse(re) ==
   LET r == PRe(re, 0, 0, InitSt) IN
   IF ~r.ok THEN r
   ELSE IF r.ix < Len(re) THEN Err(BytePos(re, r.ix), "GeneralParseError")
   ELSE [ok |-> TRUE, e |-> r.e, names |-> r.st.names, brefs |-> r.st.brefs]
=============================================================================
