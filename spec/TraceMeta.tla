------------------------------ MODULE TraceMeta ------------------------------
(***************************************************************************)
(* Trace validation of group metadata (C16).  One record per pattern:      *)
(*   clen   Regex::captures_len          names  Regex::capture_names       *)
(*   ms     for the first match of every text: Captures::len, the spans    *)
(*          from iter(), from get(0..len+1), from name(n) for every name   *)
(* Expected from the AST alone: captures_len = 1 + number of capturing     *)
(* groups; names[i] = the name of group i (numbering = opening-paren       *)
(* order) or none; and the equations of Api among the recorded values.     *)
(***************************************************************************)
EXTENDS Ast, TLC, Json, IOUtils
Rec == ndJsonDeserialize(IOEnv.VH_RECS)
Emit(tag, r) == PrintT("@@" \o tag \o " " \o ToJson(r))

NameAt(ast, i) == LET ng == NamedGroups(ast)  S == {j \in 1..Len(ng) : ng[j][2] = i}
                  IN IF S = {} THEN <<>> ELSE ng[CHOOSE j \in S : TRUE][1]
ExpNames(ast, n) == [i \in 1..n |-> NameAt(ast, i - 1)]

MatchOk(c, m) ==
   /\ m.len = c.clen                                                      \* Captures::len = captures_len
   /\ Len(m.it) = 2 * m.len                                               \* iter() yields len() items ...
   /\ SubSeq(m.gets, 1, 2 * m.len) = m.it                                 \* ... equal to get(i)
   /\ SubSeq(m.gets, 2 * m.len + 1, 2 * m.len + 4) = <<-1, -1, -1, -1>>   \* indices >= len give None
   /\ m.gets[1] >= 0                                                      \* get(0) is Some
   /\ \A j \in 1..Len(m.nm) : LET i == m.nm[j][1] IN <<m.nm[j][2], m.nm[j][3]>> = <<m.gets[2 * i + 1], m.gets[2 * i + 2]>>   \* name(n) = get(index of n)
   /\ m.unknown = <<-1, -1>>

VARIABLES l, nok, nrej, ncerr, nm
vars == <<l, nok, nrej, ncerr, nm>>
Init == l = 1 /\ nok = 0 /\ nrej = 0 /\ ncerr = 0 /\ nm = 0
Step ==
   /\ l <= Len(Rec) /\ l' = l + 1
   /\ LET c == Rec[l] IN
      IF c.st # "ok" THEN ncerr' = ncerr + 1 /\ UNCHANGED <<nok, nrej, nm>> /\ Emit("CERR", [id |-> c.id, pat |-> c.pat, ek |-> c.ek])
      ELSE LET ng == Opened(c.ast)
               staticOk == /\ c.clen = 1 + ng /\ WellNumbered(c.ast) /\ ng = c.ng
                           /\ c.names = ExpNames(c.ast, 1 + ng)
               bad == {j \in 1..Len(c.ms) : c.ms[j].len >= 0 /\ ~MatchOk(c, c.ms[j])}   \* runtime errors/panics are C05/C07 matter
           IN /\ nm' = nm + Len(c.ms) /\ UNCHANGED ncerr
              /\ IF staticOk /\ bad = {} THEN nok' = nok + 1 /\ UNCHANGED nrej
                 ELSE /\ nrej' = nrej + 1 /\ UNCHANGED nok
                      /\ Emit("REJECT", [id |-> c.id, pat |-> c.pat, ast |-> c.ast, ng |-> c.ng, clen |-> c.clen, names |-> c.names,
                                         expected_names |-> ExpNames(c.ast, 1 + ng),
                                         bad_match |-> IF bad = {} THEN <<>> ELSE <<c.ms[CHOOSE j \in bad : TRUE]>>])
Done == /\ l = Len(Rec) + 1 /\ l' = l + 1
        /\ Emit("STATS", [records |-> Len(Rec), ok |-> nok, rejected |-> nrej, cerr |-> ncerr, matches |-> nm])
        /\ UNCHANGED <<nok, nrej, ncerr, nm>>
Next == Step \/ Done
Spec == Init /\ [][Next]_vars
Consumed == TLCGet("stats").diameter = Len(Rec) + 2
=============================================================================
