-------------------------------- MODULE Ast --------------------------------
(***************************************************************************)
(* Abstract syntax of patterns (what `Expr::parse_tree` is meant to        *)
(* produce, with every flag already resolved into the nodes, exactly as    *)
(* the parser does), syntactic facts about them, and the exclusion         *)
(* predicates attached to known findings.                                  *)
(*                                                                         *)
(* A node is a record with a field k (kind):                               *)
(*   empty                         the empty pattern                       *)
(*   lit   c ci                    one character (token c), case-insens.   *)
(*   any   nl                      . ; nl = TRUE under (?s)                *)
(*   class set neg ci              a character class over the alphabet     *)
(*   cat xs / alt xs               concatenation / ordered alternation     *)
(*   rep x lo hi g                 repetition, hi = -1 is unbounded,       *)
(*                                 g = greedy (after (?U) is applied)      *)
(*   grp n x                       capturing group number n                *)
(*   atom x                        atomic group (?>x); x++ = atom(rep)     *)
(*   look neg x / lookb neg x      look-ahead / look-behind                *)
(*   bref n                        back-reference                          *)
(*   bex n                         (?(n)) group-has-matched test           *)
(*   cond c y n                    (?(c)y|n)                               *)
(*   keep / cont                   \K / \G                                 *)
(*   bol eol mbol meol             ^ $ and their (?m) forms                *)
(*   wb nwb lwb rwb                \b \B \< \>                             *)
(*   eolz                          \Z                                      *)
(***************************************************************************)
EXTENDS Naturals, Integers, Sequences, FiniteSets

MaxI(a, b) == IF a >= b THEN a ELSE b
MinI(a, b) == IF a <= b THEN a ELSE b

\* ----- constructors (used by the grammars and by hand-written witnesses) -----
Empty        == [k |-> "empty"]
Lit(c)       == [k |-> "lit", c |-> c, ci |-> FALSE]
LitI(c)      == [k |-> "lit", c |-> c, ci |-> TRUE]
\* cs = TRUE: written (?-i:c), i.e. case-sensitive even under a case-insensitive builder option
LitCS(c)     == [k |-> "lit", c |-> c, ci |-> FALSE, cs |-> TRUE]
AnyC         == [k |-> "any", nl |-> FALSE]
AnyNL        == [k |-> "any", nl |-> TRUE]
Class(s)     == [k |-> "class", set |-> s, neg |-> FALSE, ci |-> FALSE]
NClass(s)    == [k |-> "class", set |-> s, neg |-> TRUE, ci |-> FALSE]
Cat(xs)      == [k |-> "cat", xs |-> xs]
Alt(xs)      == [k |-> "alt", xs |-> xs]
Rep(x, lo, hi, g) == [k |-> "rep", x |-> x, lo |-> lo, hi |-> hi, g |-> g]
Star(x)      == Rep(x, 0, -1, TRUE)
Plus(x)      == Rep(x, 1, -1, TRUE)
Opt(x)       == Rep(x, 0, 1, TRUE)
Grp(n, x)    == [k |-> "grp", n |-> n, x |-> x]
Atom(x)      == [k |-> "atom", x |-> x]
Look(x)      == [k |-> "look", neg |-> FALSE, x |-> x]
NLook(x)     == [k |-> "look", neg |-> TRUE, x |-> x]
LookB(x)     == [k |-> "lookb", neg |-> FALSE, x |-> x]
NLookB(x)    == [k |-> "lookb", neg |-> TRUE, x |-> x]
Bref(n)      == [k |-> "bref", n |-> n]
Bex(n)       == [k |-> "bex", n |-> n]
Cond(c, y, n) == [k |-> "cond", c |-> c, y |-> y, n |-> n]
Keep         == [k |-> "keep"]
Cont         == [k |-> "cont"]
Asrt(k)      == [k |-> k]

AssertKinds == {"bol", "eol", "mbol", "meol", "wb", "nwb", "lwb", "rwb", "eolz"}
ZeroKinds   == AssertKinds \cup {"empty", "keep", "cont", "bex", "look", "lookb"}
CharKinds   == {"lit", "any", "class"}

\* ----- children -----
Kids(e) == CASE e.k \in {"cat", "alt"} -> e.xs
             [] e.k \in {"rep", "grp", "atom", "look", "lookb"} -> <<e.x>>
             [] e.k = "cond" -> <<e.c, e.y, e.n>>
             [] OTHER -> <<>>

RECURSIVE Size(_), SizeSeq(_, _)
SizeSeq(xs, j) == IF j > Len(xs) THEN 0 ELSE Size(xs[j]) + SizeSeq(xs, j + 1)
Size(e) == 1 + SizeSeq(Kids(e), 1)

\* highest group number used by a grp node (0 if none)
RECURSIVE MaxGroup(_), MaxGroupSeq(_, _)
MaxGroupSeq(xs, j) == IF j > Len(xs) THEN 0 ELSE MaxI(MaxGroup(xs[j]), MaxGroupSeq(xs, j + 1))
MaxGroup(e) == IF e.k = "grp" THEN MaxI(e.n, MaxGroup(e.x)) ELSE MaxGroupSeq(Kids(e), 1)

\* named groups: a named group n is always called x1..1 (x followed by n ones); see the harness printer
IsNamed(e) == e.k = "grp" /\ "named" \in DOMAIN e /\ e.named
GroupName(n) == <<"x">> \o [j \in 1..n |-> "1"]
RECURSIVE NamedGroups(_), NamedGroupsSeq(_, _)
NamedGroupsSeq(xs, j) == IF j > Len(xs) THEN <<>> ELSE NamedGroups(xs[j]) \o NamedGroupsSeq(xs, j + 1)
NamedGroups(e) == (IF IsNamed(e) THEN << <<GroupName(e.n), e.n>> >> ELSE <<>>) \o NamedGroupsSeq(Kids(e), 1)

\* ----- fixed length in characters, or -1 (the reference notion used by look-behind) -----
RECURSIVE FixLen(_), FixLenCat(_, _), FixLenAlt(_, _, _)
FixLenCat(xs, j) == IF j > Len(xs) THEN 0
                    ELSE LET a == FixLen(xs[j])  b == FixLenCat(xs, j + 1)
                         IN IF a < 0 \/ b < 0 THEN -1 ELSE a + b
FixLenAlt(xs, j, n) == IF j > Len(xs) THEN n
                       ELSE IF FixLen(xs[j]) = n /\ n >= 0 THEN FixLenAlt(xs, j + 1, n) ELSE -1
FixLen(e) ==
   CASE e.k \in CharKinds -> 1
     [] e.k \in ZeroKinds -> 0
     [] e.k = "cat"  -> FixLenCat(e.xs, 1)
     [] e.k = "alt"  -> FixLenAlt(e.xs, 2, FixLen(e.xs[1]))
     [] e.k = "rep"  -> LET a == FixLen(e.x)
                        IN IF a = 0 THEN 0 ELSE IF a > 0 /\ e.lo = e.hi THEN a * e.lo ELSE -1
     [] e.k \in {"grp", "atom"} -> FixLen(e.x)
     [] e.k = "cond" -> LET a == FixLen(e.c)  b == FixLen(e.y)  c == FixLen(e.n)
                        IN IF a >= 0 /\ b >= 0 /\ c >= 0 /\ a + b = c THEN c ELSE -1
     [] e.k = "bref" -> -1

\* ----- can match the empty string (syntactic over-approximation) -----
RECURSIVE Nullable(_), AllNullable(_, _), SomeNullable(_, _)
AllNullable(xs, j)  == j > Len(xs) \/ (Nullable(xs[j]) /\ AllNullable(xs, j + 1))
SomeNullable(xs, j) == j <= Len(xs) /\ (Nullable(xs[j]) \/ SomeNullable(xs, j + 1))
Nullable(e) ==
   CASE e.k \in CharKinds -> FALSE
     [] e.k \in ZeroKinds -> TRUE
     [] e.k = "cat"  -> AllNullable(e.xs, 1)
     [] e.k = "alt"  -> SomeNullable(e.xs, 1)
     [] e.k = "rep"  -> e.lo = 0 \/ Nullable(e.x)
     [] e.k \in {"grp", "atom"} -> Nullable(e.x)
     [] e.k = "cond" -> (Nullable(e.c) /\ Nullable(e.y)) \/ Nullable(e.n)
     [] e.k = "bref" -> TRUE

RECURSIVE HasKind(_, _), HasKindSeq(_, _, _)
HasKindSeq(xs, ks, j) == j <= Len(xs) /\ (HasKind(xs[j], ks) \/ HasKindSeq(xs, ks, j + 1))
HasKind(e, ks) == e.k \in ks \/ HasKindSeq(Kids(e), ks, 1)

(***************************************************************************)
(* Exclusion classes of known findings (DESIGN.md section 7).  Exporter    *)
(* and validator apply the same predicate; excluded patterns are counted.  *)
(***************************************************************************)
\* F1: an unbounded repeat whose body can match the empty string
IsNullableUnboundedRepeat(x) == x.k = "rep" /\ x.hi < 0 /\ Nullable(x.x)
RECURSIVE Excluded_F1(_), Excluded_F1Seq(_, _)
Excluded_F1Seq(xs, j) == j <= Len(xs) /\ (Excluded_F1(xs[j]) \/ Excluded_F1Seq(xs, j + 1))
Excluded_F1(e) == IsNullableUnboundedRepeat(e) \/ Excluded_F1Seq(Kids(e), 1)

\* ----- reference scoping: every bref/bex refers to a group closed earlier -----
\* Walk in pattern order keeping (opened so far, set of open ancestors).
RECURSIVE RefsOK(_, _, _), RefsOKSeq(_, _, _, _), Opened(_), OpenedSeq(_, _)
OpenedSeq(xs, j) == IF j > Len(xs) THEN 0 ELSE Opened(xs[j]) + OpenedSeq(xs, j + 1)
Opened(e) == (IF e.k = "grp" THEN 1 ELSE 0) + OpenedSeq(Kids(e), 1)
\* g = number of groups opened before e, open = set of groups still open at e
RefsOKSeq(xs, j, g, open) ==
   j > Len(xs) \/ (RefsOK(xs[j], g, open) /\ RefsOKSeq(xs, j + 1, g + Opened(xs[j]), open))
RefsOK(e, g, open) ==
   CASE e.k \in {"bref", "bex"} -> e.n >= 1 /\ e.n <= g /\ e.n \notin open
     [] e.k = "grp" -> RefsOK(e.x, g + 1, open \cup {e.n})
     [] e.k = "alt" -> \* a group closed in an earlier ALTERNATIVE counts as closed (it is simply unset)
                       RefsOKSeq(e.xs, 1, g, open)
     [] OTHER -> RefsOKSeq(Kids(e), 1, g, open)
RefsClosedEarlier(e) == RefsOK(e, 0, {})

\* groups are numbered 1..n in opening-parenthesis order
RECURSIVE NumOK(_, _), NumOKSeq(_, _, _)
NumOKSeq(xs, j, g) == j > Len(xs) \/ (NumOK(xs[j], g) /\ NumOKSeq(xs, j + 1, g + Opened(xs[j])))
NumOK(e, g) == IF e.k = "grp" THEN e.n = g + 1 /\ NumOK(e.x, g + 1) ELSE NumOKSeq(Kids(e), 1, g)
WellNumbered(e) == NumOK(e, 0)
=============================================================================
