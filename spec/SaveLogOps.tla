----------------------------- MODULE SaveLogOps -----------------------------
(***************************************************************************)
(* (Operators only; the state machine is SaveLog.tla.)                     *)
(* The undo log of the backtracker (vm.rs::State), transcribed operation   *)
(* by operation, next to the abstract model the comment in vm.rs promises: *)
(* "each element in the stack conceptually represents the entire state of  *)
(* the machine".                                                           *)
(*                                                                         *)
(*   concrete   saves    slot vector; grows to hold the explicit stack     *)
(*              stack    branches [pc, ix, nsave]                          *)
(*              oldsave  undo entries [slot, value]                        *)
(*              nsave    entries of oldsave belonging to the current state *)
(*   abstract   acur     slot vector                                       *)
(*              astack   branches [pc, ix, snap = WHOLE copy of acur]      *)
(*                                                                         *)
(* Operations (C20's vocabulary): Push = create an alternative, Pop =      *)
(* abandon the current one, Save = write a slot, SPush/SPop = auxiliary    *)
(* (explicit) stack -- kept INSIDE the slot vector, so it is saved and     *)
(* restored like any slot --, Cut(c) = commit: keep current values,        *)
(* discard exactly the alternatives created since the count c was taken.   *)
(*                                                                         *)
(* Refines: the concrete state represents the abstract one: same current   *)
(* vector, and the snapshots reconstructed by undoing the log branch by    *)
(* branch are the whole copies.  That is exactly "backtracking restores,   *)
(* atomic commit preserves" for every operation sequence.                  *)
(***************************************************************************)
EXTENDS Naturals, Integers, Sequences, FiniteSets
CONSTANTS NSlots, Vals, MaxDepth, MaxX

UNSET == -1
ESP == NSlots                      \* index (0-based) of the explicit stack pointer slot
Get(sv, s) == sv[s + 1]

\* ---------- concrete operations on a record [saves, stack, oldsave, nsave] ----------
CInit == [saves |-> [i \in 1..NSlots |-> UNSET], stack |-> <<>>, oldsave |-> <<>>, nsave |-> 0]

CSave(st, slot, val) ==
   IF \E i \in 0..(st.nsave - 1) : st.oldsave[Len(st.oldsave) - i].slot = slot
   THEN [st EXCEPT !.saves[slot + 1] = val]                                     \* already saved, just update
   ELSE [st EXCEPT !.oldsave = Append(@, [slot |-> slot, value |-> st.saves[slot + 1]]),
                   !.nsave = @ + 1, !.saves[slot + 1] = val]

CPush(st, pc, ix) == [st EXCEPT !.stack = Append(@, [pc |-> pc, ix |-> ix, nsave |-> st.nsave]), !.nsave = 0]

RECURSIVE Undo(_, _, _)
Undo(sv, os, n) == IF n = 0 THEN <<sv, os>>
                   ELSE LET e == os[Len(os)] IN Undo([sv EXCEPT ![e.slot + 1] = e.value], SubSeq(os, 1, Len(os) - 1), n - 1)
CPop(st) == LET u == Undo(st.saves, st.oldsave, st.nsave)  b == st.stack[Len(st.stack)]
            IN [saves |-> u[1], oldsave |-> u[2], nsave |-> b.nsave, stack |-> SubSeq(st.stack, 1, Len(st.stack) - 1)]

CStackPush(st0, val) ==
   LET st1 == IF Len(st0.saves) = ESP THEN [st0 EXCEPT !.saves = Append(@, ESP + 1)] ELSE st0
       sp == Get(st1.saves, ESP)
       st2 == IF Len(st1.saves) = sp THEN [st1 EXCEPT !.saves = Append(@, val)] ELSE CSave(st1, sp, val)
   IN CSave(st2, ESP, sp + 1)
CStackTop(st) == Get(st.saves, Get(st.saves, ESP) - 1)
CStackPop(st) == CSave(st, ESP, Get(st.saves, ESP) - 1)

RECURSIVE SumNs(_, _, _)
SumNs(stk, from, to) == IF from > to THEN 0 ELSE stk[from].nsave + SumNs(stk, from + 1, to)
RECURSIVE KeepFirst(_, _, _, _)
KeepFirst(os, ix, seen, acc) == IF ix > Len(os) THEN acc
                                ELSE IF os[ix].slot \in seen THEN KeepFirst(os, ix + 1, seen, acc)
                                ELSE KeepFirst(os, ix + 1, seen \cup {os[ix].slot}, Append(acc, os[ix]))
\* backtrack_cut(count): keep the first old value per slot among the discarded branches
CCut(st, count) ==
   IF Len(st.stack) = count THEN st
   ELSE LET end == Len(st.oldsave) - st.nsave - SumNs(st.stack, count + 2, Len(st.stack))
            start == end - st.stack[count + 1].nsave
            mine == SubSeq(st.oldsave, start + 1, end)
            seen == {mine[i].slot : i \in 1..Len(mine)}
            kept == KeepFirst(st.oldsave, end + 1, seen, mine)
        IN [st EXCEPT !.stack = SubSeq(@, 1, count), !.oldsave = SubSeq(@, 1, start) \o kept, !.nsave = Len(kept)]

\* ---------- abstract operations on [cur, stack] ----------
AInit == [cur |-> [i \in 1..NSlots |-> UNSET], stack |-> <<>>]
ASet(sv, slot, val) == [sv EXCEPT ![slot + 1] = val]
ASave(a, slot, val) == [a EXCEPT !.cur = ASet(@, slot, val)]
APush(a, pc, ix) == [a EXCEPT !.stack = Append(@, [pc |-> pc, ix |-> ix, snap |-> a.cur])]
APop(a) == [cur |-> a.stack[Len(a.stack)].snap, stack |-> SubSeq(a.stack, 1, Len(a.stack) - 1)]
AStackPushV(sv0, val) ==
   LET sv1 == IF Len(sv0) = ESP THEN Append(sv0, ESP + 1) ELSE sv0
       sp == Get(sv1, ESP)
       sv2 == IF Len(sv1) = sp THEN Append(sv1, val) ELSE ASet(sv1, sp, val)
   IN ASet(sv2, ESP, sp + 1)
AStackPush(a, val) == [a EXCEPT !.cur = AStackPushV(@, val)]
AStackTop(a) == Get(a.cur, Get(a.cur, ESP) - 1)
AStackPop(a) == [a EXCEPT !.cur = ASet(@, ESP, Get(@, ESP) - 1)]
ACut(a, count) == [a EXCEPT !.stack = SubSeq(@, 1, count)]

XDepth(sv) == IF Len(sv) <= ESP THEN 0 ELSE Get(sv, ESP) - (ESP + 1)
\* two vectors are the same machine state: same regular slots, same LIVE explicit stack
VisEq(a, b) == /\ SubSeq(a, 1, NSlots) = SubSeq(b, 1, NSlots)
               /\ XDepth(a) = XDepth(b)
               /\ \A k \in 1..XDepth(a) : a[ESP + 1 + k] = b[ESP + 1 + k]

RECURSIVE Snaps(_, _, _, _)
Snaps(sv, os, n, stk) == IF Len(stk) = 0 THEN <<>>
                         ELSE LET u == Undo(sv, os, n) IN <<u[1]>> \o Snaps(u[1], u[2], stk[Len(stk)].nsave, SubSeq(stk, 1, Len(stk) - 1))
RefinesAt(c, a) ==
   /\ VisEq(c.saves, a.cur)
   /\ Len(c.stack) = Len(a.stack)
   /\ \A k \in 1..Len(c.stack) : c.stack[k].pc = a.stack[k].pc /\ c.stack[k].ix = a.stack[k].ix
   /\ LET sn == Snaps(c.saves, c.oldsave, c.nsave, c.stack)
      IN \A k \in 1..Len(c.stack) : VisEq(sn[k], a.stack[Len(c.stack) - k + 1].snap)
\* every undo entry of one branch is for a different slot (what `save` maintains and `cut` relies on)
RECURSIVE DistinctPerBranch(_, _, _)
DistinctPerBranch(os, n, stk) ==
   LET mine == SubSeq(os, Len(os) - n + 1, Len(os))
   IN /\ Cardinality({mine[i].slot : i \in 1..Len(mine)}) = Len(mine)
      /\ (Len(stk) > 0 => DistinctPerBranch(SubSeq(os, 1, Len(os) - n), stk[Len(stk)].nsave, SubSeq(stk, 1, Len(stk) - 1)))
=============================================================================
