----------------------------- MODULE MC_Pipeline -----------------------------
(***************************************************************************)
(* The whole library as ONE function of the specification, from the        *)
(* pattern STRING to the search result, model-checked against the          *)
(* reference semantics of the intended pattern:                            *)
(*                                                                         *)
(*   chars  = Spell(ast, style)                     (Spell.tla)            *)
(*   tree   = Parse(chars)                          (Parse.tla)            *)
(*   ast'   = Norm(Abs(tree))                       (Front.tla)            *)
(*   prog   = Compile(Analyze(ast'))                (Analyze, Compile)     *)
(*   result = VM run of prog on (text, pos)         (VM.tla)               *)
(*                                                                         *)
(*   PipelineAgrees:  result = RefSem!Search(ast, text, pos)               *)
(*                                                                         *)
(* for every pattern of VH_PATS (outside the F1 class), every applicable   *)
(* style with index <= VH_STYLES, every text of VH_TEXTS and every start   *)
(* offset.  Each arrow is separately bound to the code (TraceParse,        *)
(* TraceFacts, TraceProg, TraceVM); this instance shows that the arrows    *)
(* compose to the property C01/C02/C19 state.  One TLC state per (pattern, *)
(* style); texts and offsets are swept inside the invariant.               *)
(***************************************************************************)
EXTENDS Front, Compile, VM, Json, IOUtils
Pats  == ndJsonDeserialize(IOEnv.VH_PATS)
Texts == LET T == ndJsonDeserialize(IOEnv.VH_TEXTS) IN [q \in 1..Len(T) |-> T[q].t]
NStyles == atoi(IOEnv.VH_STYLES)

VARIABLES pi, si
vars == <<pi, si>>
Init == pi = 0 /\ si = 0
PickPattern == pi = 0 /\ pi' \in {i \in 1..Len(Pats) : ~Excluded_F1(Pats[i].ast)} /\ UNCHANGED si
PickStyle == pi > 0 /\ si = 0 /\ si' \in {q \in 1..NStyles : Applicable(Pats[pi].ast, Styles[q])} /\ UNCHANGED pi
Spec == Init /\ [][PickPattern \/ PickStyle]_vars

Leaf == si > 0
FE == FrontEnd(Chars(Spell(Pats[pi].ast, Styles[si]), 1))
Prog == Compile(FE.ast, FE.ng)
EnvAt(t, pos) == [prog |-> Prog.p, ns |-> Prog.ns, t |-> t, pos |-> pos, skip |-> FALSE, limit |-> 100000, maxstack |-> 10000]
FrontEndAccepts == Leaf => (FE.ok /\ FE.ng = Pats[pi].ng)
\* the model compiler refuses the spelled pattern exactly when it refuses the intended one (e.g. a look-behind of variable length)
SameCompileVerdict == (Leaf /\ FE.ok) => (Prog.err = Compile(Pats[pi].ast, Pats[pi].ng).err)
PipelineAgrees ==
   (Leaf /\ FE.ok /\ Prog.err = "") =>
      \A k \in 1..Len(Texts) :
      LET t == Texts[k] IN
      \A c \in 0..Len(t) :
         LET pos == ByteOff(t, c)
             env == EnvAt(t, pos)
             fin == RunToEnd(InitState(env), env, 5000)
             r == Search(Pats[pi].ast, Pats[pi].ng, t, c)
         IN IF r = <<>> THEN fin.st = "nomatch"
            ELSE fin.st = "match" /\ SubSeq(fin.saves, 1, 2 * Pats[pi].ng + 2) = CapsToBytes(t, r)
=============================================================================
