------------------------------ MODULE TraceOpts ------------------------------
(***************************************************************************)
(* Trace validation of builder-option records (C14).                       *)
(* "case" records: rows of the same pattern built four ways                *)
(*    A  RegexBuilder::case_insensitive(true)      B  Regex::new("(?i)" + P)*)
(*    C  RegexBuilder, no option                   D  case_insensitive(false)*)
(*  expected: A = B = Search(ApplyCasei(P)),  C = D = Search(P)            *)
(* "size" records: <<piece, host, limit#, compiled?>> for every host        *)
(*  around every piece: each host must be accepted/rejected exactly like   *)
(*  the piece alone, everything compiles under the default limit, and the  *)
(*  tiny limit must reject the piece alone (otherwise the fixture is       *)
(*  vacuous and the run is a tool error, not a verdict).                   *)
(***************************************************************************)
EXTENDS Options, Json, IOUtils
Rec   == ndJsonDeserialize(IOEnv.VH_RECS)
Texts == LET T == ndJsonDeserialize(IOEnv.VH_TEXTS) IN [q \in 1..Len(T) |-> T[q].t]
Excl  == IOEnv.VH_EXCL
Emit(tag, r) == PrintT("@@" \o tag \o " " \o ToJson(r))
Pick(S) == IF S = {} THEN <<>> ELSE CHOOSE x \in S : TRUE
Exp(ast, ng) ==
   UNION { LET t == Texts[k]  o == Offs(t)  f == TLCEval(SearchAll(ast, ng, t))
           IN { <<k, o[p], 0>> \o CapsToBytes(t, f[p]) : p \in {q \in 0..Len(t) : f[q] # <<>>} } : k \in 1..Len(Texts) }
SetOf(rows) == {rows[j] : j \in 1..Len(rows)}

VARIABLES l, nok, nrej, nexcl, ncells, nvac
vars == <<l, nok, nrej, nexcl, ncells, nvac>>
Init == l = 1 /\ nok = 0 /\ nrej = 0 /\ nexcl = 0 /\ ncells = 0 /\ nvac = 0
Step ==
   /\ l <= Len(Rec) /\ l' = l + 1
   /\ LET c == Rec[l] IN
      IF c.e = "size"
      THEN LET rows == SetOf(c.rows)
               Alone(d, li) == {r[4] : r \in {x \in rows : x[1] = d /\ x[2] = 1 /\ x[3] = li}}
               With1(d, h) == {r[4] : r \in {x \in rows : x[1] = d /\ x[2] = h /\ x[3] = 1}}
               bad == {r \in rows : r[4] \notin Alone(r[1], r[3]) \/ (r[3] = 2 /\ r[4] # 1) \/ (r[3] \in {3, 4, 5, 6} /\ r[4] \notin With1(r[1], r[2]))}
               vac == {d \in {r[1] : r \in rows} : Alone(d, 1) # {0}}
           IN /\ UNCHANGED <<nexcl, ncells>> /\ nvac' = nvac + Cardinality(vac)
              /\ IF bad = {} THEN nok' = nok + 1 /\ UNCHANGED nrej
                 ELSE nrej' = nrej + 1 /\ UNCHANGED nok
                      /\ Emit("REJECT", [id |-> 0, pat |-> "size-limit fixture", what |-> "host accepted/rejected differently from the piece alone, or the DFA size limit / the case_insensitive option changed the verdict of the size limit <<piece, host, option combination#, compiled>>",
                                         got |-> Pick(bad), ast |-> <<>>, ng |-> 0])
      ELSE IF c.st = "mixed"
      THEN /\ nrej' = nrej + 1 /\ UNCHANGED <<nok, nexcl, ncells, nvac>>
           /\ Emit("REJECT", [id |-> c.id, pat |-> c.pat, ast |-> c.ast, ng |-> c.ng, what |-> "the four builds do not all compile / all fail", got |-> <<>>])
      ELSE IF c.st # "ok"
      THEN nexcl' = nexcl + 1 /\ UNCHANGED <<nok, nrej, ncells, nvac>>
      ELSE IF Excl = "F1" /\ Excluded_F1(c.ast)
      THEN \* class of finding F1: no comparison with RefSem, but the property itself -- the builder option behaves like the (?i) prefix,
           \* and an unset option like no option -- is still judged on the recorded rows
           /\ nexcl' = nexcl + 1 /\ UNCHANGED <<nok, ncells, nvac>>
           /\ IF SetOf(c.A) = SetOf(c.B) /\ SetOf(c.C) = SetOf(c.D) THEN UNCHANGED nrej
              ELSE /\ nrej' = nrej + 1
                   /\ Emit("REJECT", [id |-> c.id, pat |-> c.pat, ast |-> c.ast, ng |-> c.ng, what |-> IF SetOf(c.A) # SetOf(c.B) THEN "A vs B" ELSE "C vs D",
                                      got |-> IF SetOf(c.A) # SetOf(c.B) THEN <<Pick(SetOf(c.B) \ SetOf(c.A)), Pick(SetOf(c.A) \ SetOf(c.B))>>
                                              ELSE <<Pick(SetOf(c.D) \ SetOf(c.C)), Pick(SetOf(c.C) \ SetOf(c.D))>>])
      ELSE LET ei == TLCEval(Exp(ApplyCasei(c.ast), c.ng))   es == TLCEval(Exp(c.ast, c.ng))
               bad == {x \in {<<"A", SetOf(c.A), ei>>, <<"B", SetOf(c.B), ei>>, <<"C", SetOf(c.C), es>>, <<"D", SetOf(c.D), es>>} : x[2] # x[3]}
           IN /\ ncells' = ncells + Cardinality(ei) + Cardinality(es) /\ UNCHANGED <<nexcl, nvac>>
              /\ IF bad = {} THEN nok' = nok + 1 /\ UNCHANGED nrej
                 ELSE /\ nrej' = nrej + 1 /\ UNCHANGED nok
                      /\ LET x == CHOOSE x \in bad : TRUE
                         IN Emit("REJECT", [id |-> c.id, pat |-> c.pat, ast |-> c.ast, ng |-> c.ng, what |-> x[1],
                                            got |-> <<Pick(x[3] \ x[2]), Pick(x[2] \ x[3])>>])
Done == /\ l = Len(Rec) + 1 /\ l' = l + 1
        /\ Emit("STATS", [records |-> Len(Rec), ok |-> nok, rejected |-> nrej, excluded |-> nexcl, matching_cells |-> ncells, vacuous_size_fixtures |-> nvac])
        /\ UNCHANGED <<nok, nrej, nexcl, ncells, nvac>>
Next == Step \/ Done
Spec == Init /\ [][Next]_vars
Consumed == TLCGet("stats").diameter = Len(Rec) + 2
=============================================================================
