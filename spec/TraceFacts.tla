------------------------------ MODULE TraceFacts ------------------------------
(***************************************************************************)
(* Trace validation of the REAL analysis facts (C13, conformance layer L3).*)
(* record: the tree the real parser produced (`parsed`), the facts of      *)
(* every node in pre-order <<min_size, const_size, hard, g0, g1>> read     *)
(* through the hook, and the outcome of Regex::new (st, ek).               *)
(*                                                                         *)
(* Checked per record, with Lens computed by TLC from RefSem over the text *)
(* space:                                                                  *)
(*  (1) soundness of every node's facts: no witnessed length below min,    *)
(*      none different from min when const  -- NOT equality with the       *)
(*      mirror Analyze.tla (a tighter analysis is fine; differences from   *)
(*      the mirror are only counted as "drift");                           *)
(*  (2) look-behind: if Regex::new accepted the pattern, every arm of      *)
(*      every look-behind has at most one witnessed length; if some arm    *)
(*      has two witnessed lengths the error must be LookBehindNotConst.    *)
(***************************************************************************)
EXTENDS Analyze, Json, IOUtils
Rec   == ndJsonDeserialize(IOEnv.VH_RECS)
Texts == LET T == ndJsonDeserialize(IOEnv.VH_TEXTS) IN [q \in 1..Len(T) |-> T[q].t]
Emit(tag, r) == PrintT("@@" \o tag \o " " \o ToJson(r))

RECURSIVE SubExprs(_), SubExprsSeq(_, _)
SubExprsSeq(xs, j) == IF j > Len(xs) THEN <<>> ELSE SubExprs(xs[j]) \o SubExprsSeq(xs, j + 1)
SubExprs(e) == <<e>> \o SubExprsSeq(Kids(e), 1)

Arms(x) == IF x.k = "alt" THEN x.xs ELSE <<x>>

VARIABLES l, nok, nrej, nnodes, ndrift, nlb, nskip
vars == <<l, nok, nrej, nnodes, ndrift, nlb, nskip>>
Init == l = 1 /\ nok = 0 /\ nrej = 0 /\ nnodes = 0 /\ ndrift = 0 /\ nlb = 0 /\ nskip = 0

Step ==
   /\ l <= Len(Rec) /\ l' = l + 1
   /\ LET c == Rec[l] IN
      IF c.ast_st # "ok"
      THEN nskip' = nskip + 1 /\ UNCHANGED <<nok, nrej, nnodes, ndrift, nlb>>
      ELSE LET subs == SubExprs(c.parsed)
               ng == MaxGroup(c.parsed)
               lens == TLCEval([j \in 1..Len(subs) |-> Lens(subs[j], ng, Texts)])
               aligned == Len(subs) = Len(c.facts)
               unsound == IF aligned THEN {j \in 1..Len(subs) : ~FactSound([min |-> c.facts[j][1], const |-> c.facts[j][2] = 1], lens[j])} ELSE {}
               mirror == [j \in 1..Len(subs) |-> Facts(subs[j], BrefTargets(c.parsed))]
               drift == IF aligned THEN {j \in 1..Len(subs) : <<mirror[j].min, IF mirror[j].const THEN 1 ELSE 0, IF mirror[j].hard THEN 1 ELSE 0>>
                                                               # <<c.facts[j][1], c.facts[j][2], c.facts[j][3]>>} ELSE {}
               mirrorUnsound == {j \in 1..Len(subs) : ~FactSound(mirror[j], lens[j])}
               lbs == {j \in 1..Len(subs) : subs[j].k = "lookb"}
               \* arms with two different witnessed lengths
               varArms == {j \in lbs : \E q \in 1..Len(Arms(subs[j].x)) : Cardinality(Lens(Arms(subs[j].x)[q], ng, Texts)) > 1}
               lbBad == (c.st = "ok" /\ varArms # {}) \/ (c.st # "ok" /\ varArms # {} /\ c.ek # "CompileError(LookBehindNotConst)")
           IN /\ nnodes' = nnodes + Len(subs) /\ ndrift' = ndrift + Cardinality(drift) /\ nlb' = nlb + Cardinality(lbs) /\ UNCHANGED nskip
              /\ (mirrorUnsound # {} => Emit("MIRRORUNSOUND", [id |-> c.id, pat |-> c.pat, node |-> subs[CHOOSE j \in mirrorUnsound : TRUE]]))
              /\ IF ~aligned
                 THEN nrej' = nrej + 1 /\ UNCHANGED nok /\ Emit("MISALIGNED", [id |-> c.id, pat |-> c.pat])
                 ELSE IF unsound = {} /\ ~lbBad THEN nok' = nok + 1 /\ UNCHANGED nrej
                 ELSE /\ nrej' = nrej + 1 /\ UNCHANGED nok
                      /\ LET j == IF unsound # {} THEN CHOOSE j \in unsound : TRUE ELSE CHOOSE j \in varArms : TRUE
                         IN Emit("REJECT", [id |-> c.id, pat |-> c.pat, ast |-> c.ast, ng |-> c.ng, st |-> c.st, ek |-> c.ek,
                                            what |-> IF unsound # {} THEN "unsound size facts" ELSE "variable-length look-behind not rejected with LookBehindNotConst",
                                            node |-> subs[j], facts |-> c.facts[j], witnessed_lengths |-> lens[j]])
Done == /\ l = Len(Rec) + 1 /\ l' = l + 1
        /\ Emit("STATS", [records |-> Len(Rec), ok |-> nok, rejected |-> nrej, nodes |-> nnodes, drift_nodes |-> ndrift, lookbehinds |-> nlb, skipped |-> nskip])
        /\ UNCHANGED <<nok, nrej, nnodes, ndrift, nlb, nskip>>
Next == Step \/ Done
Spec == Init /\ [][Next]_vars
Consumed == TLCGet("stats").diameter = Len(Rec) + 2
=============================================================================
