------------------------------- MODULE TraceVM -------------------------------
(***************************************************************************)
(* Trace validation of REAL VM runs against VM.tla (conformance layer L1). *)
(* The input is a stream of lines: a "reset" line starts a run (program    *)
(* dumped from the real compiler, text, offset, limits, the result the     *)
(* real run returned, statistics from the hook), then one line per event   *)
(* the hook recorded:                                                      *)
(*   s <<pc, ix, #branches, slot vector...>>  about to execute pc          *)
(*   f                                        the thread failed            *)
(*   p <<pc, ix>>                             a branch was popped          *)
(*   x <<code>>                               end: 0 match, 1 no match,    *)
(*                                            2 limit, 3 stack overflow,   *)
(*                                            4 trace truncated, 5 panic   *)
(* One TLC state per line.  The machine is deterministic, so each event    *)
(* either IS the model's next step (advance) or the run is rejected        *)
(* (reported with what the model expected; the rest of the run is skipped  *)
(* and validation resumes at the next reset).  After every accepted step   *)
(* the property-level invariants of VM.tla are evaluated on the model      *)
(* state (which at that point equals the real state).                      *)
(***************************************************************************)
EXTENDS VM, Json, IOUtils
Rec == ndJsonDeserialize(IOEnv.VH_RECS)
Emit(tag, r) == PrintT("@@" \o tag \o " " \o ToJson(r))

NoEnv == [prog |-> <<>>, ns |-> 0, t |-> <<>>, pos |-> 0, skip |-> FALSE, limit |-> 0, maxstack |-> 0]
NoRun == [id |-> 0, pat |-> "", status |-> "", saves |-> <<>>, bt |-> 0, ncap |-> 0]
VARIABLES l, env, run, vm, mode, nruns, nok, nrej, nsteps, nbt, nunch
vars == <<l, env, run, vm, mode, nruns, nok, nrej, nsteps, nbt, nunch>>
\* mode: "idle" before the first run, "ok" validating, "resync" the last instruction was a delegate whose outcome is taken
\* as logged (F1 class), "skip" after a rejection (until the next reset), "done" run finished
Init == /\ l = 1 /\ env = NoEnv /\ run = NoRun /\ vm = InitState(NoEnv) /\ mode = "idle"
        /\ nruns = 0 /\ nok = 0 /\ nrej = 0 /\ nsteps = 0 /\ nbt = 0 /\ nunch = 0

Healthy(s, e, ncap) == NoPanic(s) /\ OnBoundary(s, e) /\ CaptureSlotsValid(s, e, ncap) /\ AnswerValid(s, e)
Counters == <<nruns, nok, nrej, nsteps, nbt, nunch>>

Reject(c, what, expected) ==
   /\ Emit("REJECT", [id |-> run.id, pat |-> run.pat, line |-> l, what |-> what, event |-> c,
                      model |-> [pc |-> vm.pc, ix |-> vm.ix, st |-> vm.st, depth |-> Len(vm.stack), saves |-> vm.saves, bt |-> vm.bt],
                      expected |-> expected])
   /\ mode' = "skip" /\ nrej' = nrej + 1 /\ UNCHANGED <<env, run, vm, nruns, nok, nsteps, nbt, nunch>>

Reset(c) ==
   /\ env' = [prog |-> c.prog, ns |-> c.ns, t |-> c.t, pos |-> c.pos, skip |-> c.skip, limit |-> c.limit, maxstack |-> c.maxstack]
   /\ run' = [id |-> c.id, pat |-> c.pat, status |-> c.status, saves |-> c.saves, bt |-> c.bt, ncap |-> c.ncap]
   /\ vm' = InitState(env') /\ mode' = "ok" /\ nruns' = nruns + 1
   /\ UNCHANGED <<nok, nrej, nsteps, nbt, nunch>>

UncheckedDelegate(pc) == env.prog[pc + 1].op = "Delegate" /\ Excluded_F1(env.prog[pc + 1].ast)

\* a step event seen while the model is in state v (= vm, or the state adopted after an unchecked delegate)
StepFrom(v, c) ==
   IF v.st = "run" /\ v.pc = c.r[1] /\ v.ix = c.r[2] /\ Len(v.stack) = c.r[3] /\ SameSaves(SubSeq(c.r, 4, Len(c.r)), v.saves, env.ns)
   THEN IF UncheckedDelegate(v.pc)
        THEN /\ vm' = v /\ mode' = "resync" /\ nunch' = nunch + 1 /\ UNCHANGED <<env, run, nruns, nok, nrej, nsteps, nbt>>
        ELSE LET v2 == Exec(v, env) IN
             IF Healthy(v2, env, run.ncap)
             THEN /\ vm' = v2 /\ mode' = "ok" /\ nsteps' = nsteps + 1 /\ UNCHANGED <<env, run, nruns, nok, nrej, nbt, nunch>>
             ELSE Reject(c, "model state after this instruction violates a VM invariant (panic / off-boundary / invalid slots / invalid answer)", v2.st)
   ELSE Reject(c, "step event differs from the model state", "see model")

Event(c) ==
   IF mode \in {"idle", "skip", "done"} THEN UNCHANGED <<env, run, vm, mode, nruns, nok, nrej, nsteps, nbt, nunch>>
   ELSE IF mode = "resync"
   THEN IF c.e = "f" THEN vm' = [vm EXCEPT !.st = "fail"] /\ mode' = "ok" /\ UNCHANGED <<env, run, nruns, nok, nrej, nsteps, nbt, nunch>>
        ELSE IF c.e = "s" /\ c.r[1] = vm.pc + 1 /\ c.r[3] = Len(vm.stack)
        THEN StepFrom([vm EXCEPT !.pc = c.r[1], !.ix = c.r[2], !.saves = SubSeq(c.r, 4, Len(c.r))], c)
        ELSE Reject(c, "unexpected event after an unchecked delegate", "f, or s at pc+1")
   ELSE
   CASE c.e = "s" -> StepFrom(vm, c)
     [] c.e = "f" -> IF vm.st = "fail" THEN UNCHANGED <<env, run, vm, mode, nruns, nok, nrej, nsteps, nbt, nunch>> ELSE Reject(c, "thread failed but the model did not", vm.st)
     [] c.e = "p" -> LET vm2 == IF vm.st = "fail" THEN Backtrack(vm, env) ELSE vm IN
                     IF vm.st = "fail" /\ vm2.st = "run" /\ vm2.pc = c.r[1] /\ vm2.ix = c.r[2]
                     THEN vm' = vm2 /\ nbt' = nbt + 1 /\ UNCHANGED <<env, run, mode, nruns, nok, nrej, nsteps, nunch>>
                     ELSE Reject(c, "pop differs from the model", <<vm2.st, vm2.pc, vm2.ix>>)
     [] c.e = "x" ->
          LET code == c.r[1]
              vmEnd == IF vm.st = "fail" THEN Backtrack(vm, env) ELSE vm
              okEnd == CASE code = 0 -> vm.st = "match" /\ run.status = "match" /\ SameSaves(run.saves, vm.saves, env.ns) /\ run.bt = vm.bt
                         [] code = 1 -> vmEnd.st = "nomatch" /\ run.status = "nomatch" /\ run.bt = vm.bt
                         [] code = 2 -> vmEnd.st = "err_limit" /\ run.status = "err_limit"
                         [] code = 3 -> vm.st = "err_stack" /\ run.status = "err_stack"
                         [] code = 4 -> TRUE
                         [] OTHER -> FALSE
          IN IF okEnd THEN /\ mode' = "done" /\ nok' = nok + 1 /\ UNCHANGED <<env, run, vm, nruns, nrej, nsteps, nbt, nunch>>
             ELSE Reject(c, "end of run differs from the model (status, final slots or backtrack count)", <<vmEnd.st, vmEnd.bt>>)

TStep == /\ l <= Len(Rec) /\ l' = l + 1
         /\ LET c == Rec[l] IN IF c.e = "reset" THEN Reset(c) ELSE Event(c)
Done == /\ l = Len(Rec) + 1 /\ l' = l + 1
        /\ Emit("STATS", [lines |-> Len(Rec), runs |-> nruns, ok |-> nok, rejected |-> nrej, steps |-> nsteps, backtracks |-> nbt, delegate_unchecked |-> nunch])
        /\ UNCHANGED <<env, run, vm, mode, nruns, nok, nrej, nsteps, nbt, nunch>>
Next == TStep \/ Done
Spec == Init /\ [][Next]_vars
Consumed == TLCGet("stats").diameter = Len(Rec) + 2
=============================================================================
