------------------------------- MODULE Options -------------------------------
(***************************************************************************)
(* RegexBuilder options as transformations of the pattern (C14).           *)
(*   case_insensitive(true) on P  ==  the pattern (?i)P : every literal    *)
(*   and class becomes case-insensitive unless it sits in (?-i:..)         *)
(*   (node field cs = TRUE).  Nothing else changes.                        *)
(*   delegate_size_limit(n): a pattern that contains the piece D as a      *)
(*   delegated sub-expression is rejected at build time iff D alone is;    *)
(*   delegate_dfa_size_limit does not change whether a build succeeds.     *)
(***************************************************************************)
EXTENDS RefSem
IsCS(e) == "cs" \in DOMAIN e /\ e.cs
RECURSIVE ApplyCasei(_), ApplyCaseiSeq(_, _)
ApplyCaseiSeq(xs, j) == IF j > Len(xs) THEN <<>> ELSE <<ApplyCasei(xs[j])>> \o ApplyCaseiSeq(xs, j + 1)
ApplyCasei(e) ==
   CASE e.k \in {"lit", "class"} -> [e EXCEPT !.ci = e.ci \/ ~IsCS(e)]
     [] e.k \in {"cat", "alt"} -> [e EXCEPT !.xs = ApplyCaseiSeq(e.xs, 1)]
     [] e.k \in {"rep", "grp", "atom", "look", "lookb"} -> [e EXCEPT !.x = ApplyCasei(e.x)]
     [] e.k = "cond" -> [e EXCEPT !.c = ApplyCasei(e.c), !.y = ApplyCasei(e.y), !.n = ApplyCasei(e.n)]
     [] OTHER -> e

\* size-limit fixtures: pieces D (pattern strings as tokens; "w" stands for \w) and hosts <<prefix, suffix>>
SizePieces == << <<"\\", "w", "{", "9", "}">>, <<"[", "a", "-", "y", "]", "{", "9", "9", "}">> >>
SizeHosts == << << <<>>, <<>> >>,                                                   \* D alone (delegated as a whole)
                << <<>>, <<"(", "?", "=", ")">> >>,                                   \* D(?=)       VM, D is a delegated prefix
                << <<"(", "?", "=">>, <<")">> >>,                                     \* (?=D)
                << <<"(">>, <<")", "\\", "1">> >>,                                    \* (D)\1
                << <<"(", "?", ">">>, <<")", "b">> >>,                                \* (?>D)b
                << <<"(", "?", "!", "b", ")">>, <<>> >> >>                            \* (?!b)D
\* option combinations (0 = leave the builder default): 1 tiny size limit, 2 defaults, 3 and 4 the tiny size limit TOGETHER with a
\* DFA size limit (set after / before it).  The DFA limit never makes a build fail, so 3 and 4 must give the verdict of 1.
SizeLimits == << [size |-> 100, dfa |-> 0, dfafirst |-> FALSE, ci |-> 0], [size |-> 0, dfa |-> 0, dfafirst |-> FALSE, ci |-> 0],
                 [size |-> 100, dfa |-> 100, dfafirst |-> FALSE, ci |-> 0], [size |-> 100, dfa |-> 1048576, dfafirst |-> TRUE, ci |-> 0],
                 \* 5 and 6: the tiny size limit TOGETHER with case_insensitive(true) (ci = 1: set before the limits, 2: after).  Both pieces
                 \* exceed the limit with or without case folding, so 5 and 6 must give the verdict of 1 as well.
                 [size |-> 100, dfa |-> 0, dfafirst |-> FALSE, ci |-> 1], [size |-> 100, dfa |-> 100, dfafirst |-> TRUE, ci |-> 2] >>
=============================================================================
