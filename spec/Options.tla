------------------------------- MODULE Options -------------------------------
(***************************************************************************)
(* RegexBuilder options as transformations of the pattern (C14).           *)
(*   case_insensitive(true) on P  ==  the pattern (?i)P : every literal    *)
(*   and class becomes case-insensitive unless it sits in (?-i:..)         *)
(*   (node field cs = TRUE).  Nothing else changes.                        *)
(*   delegate_size_limit(n): a pattern that contains the piece D as a      *)
(*   delegated sub-expression is rejected at build time iff D alone is.    *)
(***************************************************************************)
EXTENDS RefSem
IsCS(e) == "cs" \in DOMAIN e /\ e.cs
RECURSIVE ApplyCasei(_), ApplyCaseiSeq(_, _)
ApplyCaseiSeq(xs, j) == IF j > Len(xs) THEN <<>> ELSE <<ApplyCasei(xs[j])>> \o ApplyCaseiSeq(xs, j + 1)
ApplyCasei(e) ==
   CASE e.k \in {"lit", "class"} -> [e EXCEPT !.ci = e.ci \/ ~IsCS(e)]
     [] e.k \in {"cat", "alt"} -> [e EXCEPT !.xs = ApplyCaseiSeq(e.xs, 1)]
     [] e.k \in {"rep", "grp", "atom", "look", "lookb"} -> [e EXCEPT !.x = ApplyCasei(e.x)]
     [] e.k = "cond" -> [e EXCEPT !.c = ApplyCasei(e.c), !.y = ApplyCasei(e.y), !.n = ApplyCasei(e.n)]
     [] OTHER -> e

\* size-limit fixtures: pieces D (pattern strings as tokens; "w" stands for \w) and hosts <<prefix, suffix>>
SizePieces == << <<"\\", "w", "{", "9", "}">>, <<"[", "a", "-", "y", "]", "{", "9", "9", "}">> >>
SizeHosts == << << <<>>, <<>> >>,                                                   \* D alone (delegated as a whole)
                << <<>>, <<"(", "?", "=", ")">> >>,                                   \* D(?=)       VM, D is a delegated prefix
                << <<"(", "?", "=">>, <<")">> >>,                                     \* (?=D)
                << <<"(">>, <<")", "\\", "1">> >>,                                    \* (D)\1
                << <<"(", "?", ">">>, <<")", "b">> >>,                                \* (?>D)b
                << <<"(", "?", "!", "b", ")">>, <<>> >> >>                            \* (?!b)D
SizeLimits == <<100, 0>>      \* tiny, and 0 = builder default
=============================================================================
