SPECIFICATION Spec
CONSTANTS NThreads = 2  BrokenPool = FALSE  SharedSlots = FALSE
INVARIANT ResultsSequential
INVARIANT CacheExclusive
INVARIANT NoDeadlock
CHECK_DEADLOCK FALSE
