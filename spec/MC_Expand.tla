------------------------------ MODULE MC_Expand ------------------------------
(***************************************************************************)
(* Model checking of the template scanner (C12), one action per scanner    *)
(* step.  Two families of behaviours, chosen in Init:                      *)
(*   mode "escape": the template is Escape(s) for an arbitrary string s;   *)
(*                  when the scan ends the output must be s again;         *)
(*   mode "any":    an arbitrary template; when Check accepts it every     *)
(*                  reference names an existing group, the step-wise       *)
(*                  output equals Expansion, and every step moves the      *)
(*                  cursor forward (termination).                          *)
(* for every string/template up to length MaxLen over Alphabet, both       *)
(* dialects, every fixture environment.                                    *)
(***************************************************************************)
EXTENDS ExpandFix, TLC
CONSTANTS MaxLen

Alphabet == {TplAlphabet[j] : j \in 1..Len(TplAlphabet)}
Strings == UNION { [1..n -> Alphabet] : n \in 0..MaxLen }
Envs == {Fixtures[j].env : j \in 1..Len(Fixtures)}

VARIABLES mode, src, tpl, dia, env, i, out
vars == <<mode, src, tpl, dia, env, i, out>>

Init == /\ mode \in {"escape", "any"}
        /\ src \in Strings
        /\ dia \in {"dollar", "python"}
        /\ env \in Envs
        /\ tpl = IF mode = "escape" THEN Escape(src, dia) ELSE src
        /\ i = 1 /\ out = <<>>

ScanStep == /\ i <= Len(tpl)
            /\ LET s == ScanAt(tpl, i, Dialect(dia))
               IN i' = s.next /\ out' = out \o StepOut(env, s)
            /\ UNCHANGED <<mode, src, tpl, dia, env>>
Next == ScanStep
Spec == Init /\ [][Next]_vars

Finished == i > Len(tpl)
RoundTrip == (Finished /\ mode = "escape") => out = src
StepwiseIsExpansion == Finished => out = Expansion(tpl, env, dia)
CheckSound == (mode = "any" /\ Check(tpl, env, dia) = "ok") => RefsExist(tpl, env, dia)
EscapeBorrowRule == (mode = "escape") => (EscapeBorrows(src, dia) <=> tpl = src)
CursorBounded == i <= Len(tpl) + 1
Progress == [][i' > i]_vars
=============================================================================
