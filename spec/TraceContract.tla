---------------------------- MODULE TraceContract ----------------------------
(* Trace validation of compile outcomes (C06): every recorded outcome must satisfy Contract!ContractHolds. *)
EXTENDS Contract, TLC, Json, IOUtils
Rec == ndJsonDeserialize(IOEnv.VH_RECS)
Emit(tag, r) == PrintT("@@" \o tag \o " " \o ToJson(r))
VARIABLES l, nok, nrej, nerr, nokc
vars == <<l, nok, nrej, nerr, nokc>>
Init == l = 1 /\ nok = 0 /\ nrej = 0 /\ nerr = 0 /\ nokc = 0
TStep == /\ l <= Len(Rec) /\ l' = l + 1
         /\ LET c == Rec[l] IN
            /\ nerr' = nerr + (IF c.st = "err" THEN 1 ELSE 0) /\ nokc' = nokc + (IF c.st = "ok" THEN 1 ELSE 0)
            /\ IF ContractHolds(c) THEN nok' = nok + 1 /\ UNCHANGED nrej
               ELSE nrej' = nrej + 1 /\ UNCHANGED nok /\ Emit("REJECT", [id |-> c.id, what |-> c.what, st |-> c.st, pos |-> c.pos, len |-> c.len, ms |-> c.ms, ek |-> c.ek])
Done == /\ l = Len(Rec) + 1 /\ l' = l + 1
        /\ Emit("STATS", [records |-> Len(Rec), ok |-> nok, rejected |-> nrej, compile_ok |-> nokc, compile_err |-> nerr])
        /\ UNCHANGED <<nok, nrej, nerr, nokc>>
Spec == Init /\ [][TStep \/ Done]_vars
Consumed == TLCGet("stats").diameter = Len(Rec) + 2
=============================================================================
