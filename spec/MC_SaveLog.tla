----------------------------- MODULE MC_SaveLog -----------------------------
(* Bounded instance of SaveLog: depth bound via CONSTRAINT; with VH_EMIT=1 every distinct state prints
   the operation history that reached it (one REPLAY line per state, the VIEW hides the history). *)
EXTENDS SaveLog, TLC, Json, IOUtils
CONSTANT MaxOps
Bound == nops <= MaxOps
EmitOn == IOEnv.VH_EMIT = "1"
Emit == EmitOn => PrintT("@@REPLAY " \o ToJson([h |-> hist]))
=============================================================================
