SPECIFICATION Spec
INVARIANT FrontEndAccepts
INVARIANT SameCompileVerdict
INVARIANT PipelineAgrees
CHECK_DEADLOCK FALSE
