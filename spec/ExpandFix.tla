------------------------------ MODULE ExpandFix ------------------------------
(* Template alphabet and capture fixtures shared by MC_Expand, TraceExpand and MC_Export. *)
EXTENDS Expand

TplAlphabet == <<"$", "{", "}", "\\", "g", "<", ">", "0", "1", "9", "x", "U", "E", "S">>

\* patterns as token sequences (the harness turns tokens into characters, E = e-acute, U = _)
Fixtures == <<
   [pat  |-> <<"(", "a", ")", "(", "b", ")", "?", "(", "E", ")">>, text |-> <<"a", "E">>,
    env  |-> [n |-> 4, txt |-> << <<"a", "E">>, <<"a">>, None, <<"E">> >>, names |-> <<>>]],
   [pat  |-> <<"(", "?", "<", "x", ">", "a", ")", "(", "?", "<", "x", "1", ">", "b", ")", "?", "(", "?", "<", "U", ">", "E", ")">>,
    text |-> <<"a", "E">>,
    env  |-> [n |-> 4, txt |-> << <<"a", "E">>, <<"a">>, None, <<"E">> >>,
              names |-> << << <<"x">>, 1 >>, << <<"x", "1">>, 2 >>, << <<"U">>, 3 >> >>]],
   [pat  |-> <<"(", "?", "<", "9", ">", "a", ")", "(", "b", ")">>, text |-> <<"a", "b">>,
    env  |-> [n |-> 3, txt |-> << <<"a", "b">>, <<"a">>, <<"b">> >>, names |-> << << <<"9">>, 1 >> >>]],
   \* the unmatched group is group 1, the one the digits of the template alphabet can name: $1 \1 ${1} \g<1> must insert nothing
   [pat  |-> <<"(", "b", ")", "?", "(", "a", ")">>, text |-> <<"a">>,
    env  |-> [n |-> 3, txt |-> << <<"a">>, None, <<"a">> >>, names |-> <<>>]]
>>
=============================================================================
