------------------------------ MODULE MC_Export ------------------------------
(* Exports spec-defined spaces as ndjson (run by setup; see ../check).
   Every space is an operator WITH a (dummy) parameter: TLC pre-evaluates zero-arity constant definitions at start-up,
   which would build every space -- including the 100^N vocabulary sequences -- on every export. *)
EXTENDS Gram, Text, ExpandFix, Escape, Options, Spell, Contract, Json, IOUtils, SequencesExt

What == IOEnv.VH_WHAT
OutF == IOEnv.VH_OUT
NN   == atoi(IOEnv.VH_N)

PatSetOf(u) == IF IOEnv.VH_PROF = "ctxfill" THEN CtxFillPats ELSE IF IOEnv.VH_PROF = "condctx" THEN CondCtxFillPats ELSE IF IOEnv.VH_PROF = "wildshapes" THEN WildShapePats ELSE IF IOEnv.VH_PROF = "plainctx" THEN PlainCtxFillPats ELSE PatsOfSize(NN, Prof(IOEnv.VH_PROF))
PatRecs(u) == LET S == SetToSeq(PatSetOf(0))
           IN [q \in 1..Len(S) |-> [id |-> q, ast |-> S[q].ast, ng |-> S[q].ng]]
\* single-site injections of every pattern of the base space
InjRecs(u) == LET B == SetToSeq(PatSetOf(0))
               S == SetToSeq(UNION { { [ast |-> x, base |-> b.ast, ng |-> b.ng] : x \in {y \in Injections(b.ast) : InjectOK(y)} } : b \in PatSetOf(0) })
           IN [q \in 1..Len(S) |-> [id |-> q, ast |-> S[q].ast, base |-> S[q].base, ng |-> S[q].ng]]
\* two-level nesting of contexts: the seeded driver only picks the triples (outer context, inner context, filler) -- VH_PICKS --,
\* the patterns are built here; ids of the inner level are shifted, clashes (context 36 copies its hole) are dropped
Ctx2Recs(u) == LET PK == ndJsonDeserialize(IOEnv.VH_PICKS)
                   E2(q) == Ctx(PK[q].i, Shift(Ctx(PK[q].j, Fillers[PK[q].f]), 1000))
                   Distinct(e) == LET o == GroupOrder(e) IN Cardinality({o[j] : j \in 1..Len(o)}) = Len(o)
                   ok == SelectSeq([q \in 1..Len(PK) |-> q], LAMBDA q : CtxOK(E2(q)) /\ Distinct(E2(q)))
               IN [q \in 1..Len(ok) |-> [id |-> q, ast |-> Renumber(E2(ok[q])), ng |-> Len(GroupOrder(E2(ok[q]))), pick |-> <<PK[ok[q]].i, PK[ok[q]].j, PK[ok[q]].f>>]]
Sig == CASE IOEnv.VH_SIG = "sig6" -> SIG6
         [] IOEnv.VH_SIG = "case4" -> <<"a", "A", "b", "B", "E", "Z">>      \* (the name is historical: two ASCII case pairs and one non-ASCII pair)
         [] IOEnv.VH_SIG = "wide" -> <<"a", "E", "K", "T", "Q", "N">>
         [] IOEnv.VH_SIG = "ab" -> <<"a", "b">>
TextRecs(u) == LET S == TextsUpTo(Sig, NN) IN [q \in 1..Len(S) |-> [t |-> S[q]]]

TplRecs(u) == LET S == TextsUpTo(TplAlphabet, NN) IN [q \in 1..Len(S) |-> [id |-> q, tpl |-> S[q]]]
FixRecs(u) == [q \in 1..Len(Fixtures) |-> [pat |-> Fixtures[q].pat, text |-> Fixtures[q].text]]

EscRecs(u) == LET S == TextsUpTo(EscAlphabet, NN)
           IN [q \in 1..Len(S) |-> [id |-> q, s |-> S[q], hay |-> Hay(S[q]), hosts |-> [h \in 1..NHosts |-> HostStr(h)]]]

SizeRecs(u) == << [pieces |-> SizePieces, hosts |-> SizeHosts, limits |-> SizeLimits] >>

\* C19: for every base pattern every style that changes its spelling (style 1 = plain is always included as the reference)
SpellRecs(u) == LET S == SetToSeq(UNION { { [base |-> b.ast, ng |-> b.ng, style |-> j, toks |-> Spell(b.ast, Styles[j]), sametree |-> TRUE]
                                         : j \in {q \in 1..Len(Styles) : Applicable(b.ast, Styles[q])} } : b \in PatSetOf(0) })
             IN [q \in 1..Len(S) |-> [id |-> q, ast |-> S[q].base, base |-> S[q].base, ng |-> S[q].ng, style |-> S[q].style, toks |-> S[q].toks, sametree |-> S[q].sametree]]

VocabRecs(u) == LET S == TextsUpTo(Vocabulary, NN) IN [q \in 1..Len(S) |-> [id |-> q, toks |-> S[q]]]
AmpRecs(u) == LET S == {<<f, k>> : f \in 1..Len(AmpFamilies), k \in 1..Len(AmpFactors)}
               Q == SetToSeq(S)
           IN [q \in 1..Len(Q) |-> [id |-> q, amp |-> AmpFamilies[Q[q][1]], k |-> AmpFactors[Q[q][2]]]]

StressRecs(u) == LET S == SetToSeq({<<t, x>> : t \in 1..Len(StressTemplates), x \in 1..Len(Stressors)})
                 IN [q \in 1..Len(S) |-> [id |-> q, toks |-> <<StressTemplates[S[q][1]][1], Stressors[S[q][2]], StressTemplates[S[q][1]][2]>>]]
Out(r) == LET v == TLCEval(r) IN ndJsonSerialize(OutF, v) /\ PrintT(<<"EXPORTED", Len(v)>>)

VARIABLE done
Init == done = FALSE
Next == /\ ~done /\ done' = TRUE
        /\ CASE What = "pats"  -> Out(PatRecs(0))
             [] What = "ctx2" -> Out(Ctx2Recs(0))
             [] What = "inject" -> Out(InjRecs(0))
             [] What = "templates" -> Out(TplRecs(0))
             [] What = "escapes" -> Out(EscRecs(0))
             [] What = "sizefix" -> Out(SizeRecs(0))
             [] What = "spell" -> Out(SpellRecs(0))
             [] What = "vocab" -> Out(VocabRecs(0))
             [] What = "stress" -> Out(StressRecs(0))
             [] What = "amp" -> Out(AmpRecs(0))
             [] What = "fixtures" -> Out(FixRecs(0))
             [] What = "texts" -> Out(TextRecs(0))
Spec == Init /\ [][Next]_done
=============================================================================
