------------------------------ MODULE MC_Export ------------------------------
(* Exports spec-defined spaces as ndjson (run by setup; see ../check). *)
EXTENDS Gram, Text, ExpandFix, Escape, Options, Spell, Contract, Json, IOUtils, SequencesExt

What == IOEnv.VH_WHAT
OutF == IOEnv.VH_OUT
NN   == atoi(IOEnv.VH_N)

PatSet == IF IOEnv.VH_PROF = "ctxfill" THEN CtxFillPats ELSE IF IOEnv.VH_PROF = "condctx" THEN CondCtxFillPats ELSE IF IOEnv.VH_PROF = "wildshapes" THEN WildShapePats ELSE PatsOfSize(NN, Prof(IOEnv.VH_PROF))
PatRecs == LET S == SetToSeq(PatSet)
           IN [q \in 1..Len(S) |-> [id |-> q, ast |-> S[q].ast, ng |-> S[q].ng]]
\* single-site injections of every pattern of the base space
InjRecs == LET B == SetToSeq(PatSet)
               S == SetToSeq(UNION { { [ast |-> x, base |-> b.ast, ng |-> b.ng] : x \in {y \in Injections(b.ast) : InjectOK(y)} } : b \in PatSet })
           IN [q \in 1..Len(S) |-> [id |-> q, ast |-> S[q].ast, base |-> S[q].base, ng |-> S[q].ng]]
Sig == CASE IOEnv.VH_SIG = "sig6" -> SIG6
         [] IOEnv.VH_SIG = "case4" -> <<"a", "A", "b", "B">>
         [] IOEnv.VH_SIG = "wide" -> <<"a", "E", "T", "Q", "N">>
         [] IOEnv.VH_SIG = "ab" -> <<"a", "b">>
TextRecs == LET S == TextsUpTo(Sig, NN) IN [q \in 1..Len(S) |-> [t |-> S[q]]]

TplRecs == LET S == TextsUpTo(TplAlphabet, NN) IN [q \in 1..Len(S) |-> [id |-> q, tpl |-> S[q]]]
FixRecs == [q \in 1..Len(Fixtures) |-> [pat |-> Fixtures[q].pat, text |-> Fixtures[q].text]]

EscRecs == LET S == TextsUpTo(EscAlphabet, NN)
           IN [q \in 1..Len(S) |-> [id |-> q, s |-> S[q], hay |-> Hay(S[q]), hosts |-> [h \in 1..NHosts |-> HostStr(h)]]]

SizeRecs == << [pieces |-> SizePieces, hosts |-> SizeHosts, limits |-> SizeLimits] >>

\* C19: for every base pattern every style that changes its spelling (style 1 = plain is always included as the reference)
SpellRecs == LET S == SetToSeq(UNION { { [base |-> b.ast, ng |-> b.ng, style |-> j, toks |-> Spell(b.ast, Styles[j]), sametree |-> TRUE]
                                         : j \in {q \in 1..Len(Styles) : Applicable(b.ast, Styles[q])} } : b \in PatSet })
             IN [q \in 1..Len(S) |-> [id |-> q, ast |-> S[q].base, base |-> S[q].base, ng |-> S[q].ng, style |-> S[q].style, toks |-> S[q].toks, sametree |-> S[q].sametree]]

VocabRecs == LET S == TextsUpTo(Vocabulary, NN) IN [q \in 1..Len(S) |-> [id |-> q, toks |-> S[q]]]
AmpRecs == LET S == {<<f, k>> : f \in 1..Len(AmpFamilies), k \in 1..Len(AmpFactors)}
               Q == SetToSeq(S)
           IN [q \in 1..Len(Q) |-> [id |-> q, amp |-> AmpFamilies[Q[q][1]], k |-> AmpFactors[Q[q][2]]]]

VARIABLE done
Init == done = FALSE
Next == /\ ~done /\ done' = TRUE
        /\ CASE What = "pats"  -> /\ ndJsonSerialize(OutF, PatRecs) /\ PrintT(<<"EXPORTED", Len(PatRecs)>>)
             [] What = "inject" -> /\ ndJsonSerialize(OutF, InjRecs) /\ PrintT(<<"EXPORTED", Len(InjRecs)>>)
             [] What = "templates" -> /\ ndJsonSerialize(OutF, TplRecs) /\ PrintT(<<"EXPORTED", Len(TplRecs)>>)
             [] What = "escapes" -> /\ ndJsonSerialize(OutF, EscRecs) /\ PrintT(<<"EXPORTED", Len(EscRecs)>>)
             [] What = "sizefix" -> /\ ndJsonSerialize(OutF, SizeRecs) /\ PrintT(<<"EXPORTED", Len(SizeRecs)>>)
             [] What = "spell" -> /\ ndJsonSerialize(OutF, SpellRecs) /\ PrintT(<<"EXPORTED", Len(SpellRecs)>>)
             [] What = "vocab" -> /\ ndJsonSerialize(OutF, VocabRecs) /\ PrintT(<<"EXPORTED", Len(VocabRecs)>>)
             [] What = "amp" -> /\ ndJsonSerialize(OutF, AmpRecs) /\ PrintT(<<"EXPORTED", Len(AmpRecs)>>)
             [] What = "fixtures" -> /\ ndJsonSerialize(OutF, FixRecs) /\ PrintT(<<"EXPORTED", Len(FixRecs)>>)
             [] What = "texts" -> /\ ndJsonSerialize(OutF, TextRecs) /\ PrintT(<<"EXPORTED", Len(TextRecs)>>)
Spec == Init /\ [][Next]_done
=============================================================================
