--------------------------------- MODULE VM ---------------------------------
(***************************************************************************)
(* The backtracking VM of src/vm.rs::run, one transition per instruction,  *)
(* written around a pure step function so that the same definition serves  *)
(*   - model checking (MC_Hybrid: programs produced by Compile.tla),       *)
(*   - trace validation (TraceVM: every event of a REAL run must be this   *)
(*     machine's next step, on the program the REAL compiler produced),    *)
(*   - bulk evaluation (RunToEnd).                                         *)
(*                                                                         *)
(* A machine state is a record                                             *)
(*   pc     program counter (0-based, like the code)                       *)
(*   ix     string index in BYTES (like the code)                          *)
(*   saves  slot vector; -1 = usize::MAX = unset; the explicit stack lives *)
(*          behind the n_saves regular slots exactly as in vm.rs           *)
(*   stack  branch stack as WHOLE COPIES [pc, ix, saves] -- the abstract   *)
(*          form which SaveLog.tla shows the undo log to implement         *)
(*   bt     backtracks taken so far                                        *)
(*   st     "run" | "fail" (between `break 'fail` and the pop) | "match" | *)
(*          "nomatch" | "err_limit" | "err_stack" | "panic"                *)
(* and an environment                                                      *)
(*   env = [prog, ns (n_saves), t (text tokens), pos (search offset in     *)
(*          bytes), skip (OPTION_SKIPPED_EMPTY_MATCH), limit, maxstack]    *)
(*                                                                         *)
(* "panic" marks the places where the Rust code would panic (slice out of  *)
(* range or off a character boundary, unwrap of None): reaching it is a    *)
(* violation of C05.                                                       *)
(***************************************************************************)
EXTENDS RefSem

\* ---------- text access at byte offsets ----------
Boundary(env, b) == CharPos(env.t, b)              \* character position of byte b, -1 if inside a character
BLen(env) == ByteLen(env.t)
ByteOf(env, i) == ByteOff(env.t, i)

\* ---------- slots and the explicit stack (vm.rs: stack_push / stack_pop) ----------
GetS(sv, s) == sv[s + 1]
SetS(sv, s, v) == [sv EXCEPT ![s + 1] = v]
XPush(sv0, ns, val) ==
   LET sv1 == IF Len(sv0) = ns THEN Append(sv0, ns + 1) ELSE sv0
       sp == GetS(sv1, ns)
       sv2 == IF Len(sv1) = sp THEN Append(sv1, val) ELSE SetS(sv1, sp, val)
   IN SetS(sv2, ns, sp + 1)
XTop(sv, ns) == GetS(sv, GetS(sv, ns) - 1)
XPop(sv, ns) == SetS(sv, ns, GetS(sv, ns) - 1)
XDepthOf(sv, ns) == IF Len(sv) <= ns THEN 0 ELSE GetS(sv, ns) - (ns + 1)
\* same machine state: equal regular slots and equal LIVE part of the explicit stack
SameSaves(a, b, ns) == /\ Len(a) >= ns /\ Len(b) >= ns
                       /\ SubSeq(a, 1, ns) = SubSeq(b, 1, ns)
                       /\ XDepthOf(a, ns) = XDepthOf(b, ns)
                       /\ \A k \in 1..XDepthOf(a, ns) : a[ns + 1 + k] = b[ns + 1 + k]

InitState(env) == [pc |-> 0, ix |-> env.pos, saves |-> [j \in 1..env.ns |-> -1], stack |-> <<>>, bt |-> 0, st |-> "run"]

Fail(s) == [s EXCEPT !.st = "fail"]
Goto(s, pc) == [s EXCEPT !.pc = pc]
Nxt(s) == [s EXCEPT !.pc = @ + 1]
PushBranch(s, env, pc, ix) ==
   IF Len(s.stack) < env.maxstack THEN [s EXCEPT !.stack = Append(@, [pc |-> pc, ix |-> ix, saves |-> s.saves])]
   ELSE [s EXCEPT !.st = "err_stack"]

\* the token starting at byte b (b must be a boundary < len), and its width
TokAt(env, b) == env.t[Boundary(env, b) + 1]

\* bytes of a literal (token sequence) present at byte b?
RECURSIVE LitBytes(_)
LitBytes(lit) == IF lit = <<>> THEN 0 ELSE Width(Head(lit)) + LitBytes(Tail(lit))
LitAt(env, b, lit) ==
   LET i == Boundary(env, b) IN
   /\ i >= 0 /\ i + Len(lit) <= Len(env.t)
   /\ SubSeq(env.t, i + 1, i + Len(lit)) = lit

(***************************************************************************)
(* Delegate: the anchored leftmost-first match of the delegated piece at   *)
(* ix -- its meaning is RefSem's first success on the piece's AST.  Groups *)
(* of the piece are numbered 1.. inside the piece and land in the slots of *)
(* groups sg, sg+1, ...  Groups the inner match did not touch keep their   *)
(* old value.                                                              *)
(***************************************************************************)
DelegateRun(env, b, ins) ==
   LET i == Boundary(env, b)
       nin == ins.eg - ins.sg
       rs == R(ins.ast, [i |-> i, caps |-> InitCaps(nin, i)], [t |-> env.t, pos |-> 0, skip |-> FALSE])
   IN IF i < 0 THEN <<"panic">> ELSE IF rs = <<>> THEN <<"none">> ELSE <<"ok", rs[1]>>
RECURSIVE WriteGroups(_, _, _, _, _, _)
WriteGroups(sv, env, caps, sg, nin, g) ==
   IF g > nin THEN sv
   ELSE LET lo == caps[G1(g)]  hi == caps[G2(g)]
            slot == (sg + g - 1) * 2
        IN WriteGroups(IF lo = NoCap THEN sv ELSE SetS(SetS(sv, slot, ByteOf(env, lo)), slot + 1, ByteOf(env, hi)), env, caps, sg, nin, g + 1)

\* GoBack(n): n code points back, failing at the start of the text
RECURSIVE GoBackFrom(_, _, _)
GoBackFrom(env, i, n) == IF n = 0 THEN i ELSE IF i = 0 THEN -1 ELSE GoBackFrom(env, i - 1, n - 1)

\* FailNegativeLookAround: pop until the branch that would continue after the look-around (pc + 1) was popped
RECURSIVE PopUntil(_, _)
PopUntil(stack, pc) == IF stack = <<>> THEN <<"panic">>
                       ELSE LET b == stack[Len(stack)]  rest == SubSeq(stack, 1, Len(stack) - 1)
                            IN IF b.pc = pc THEN <<"ok", rest, b.saves>> ELSE PopUntil(rest, pc)

(***************************************************************************)
(* Exec: one instruction.  Precondition s.st = "run".                      *)
(***************************************************************************)
Exec(s, env) ==
   LET ins == env.prog[s.pc + 1]
       op == ins.op
       cx == [t |-> env.t, pos |-> 0, skip |-> FALSE]
   IN
   CASE op = "End" ->
          LET sv == IF env.ns >= 2 /\ GetS(s.saves, 0) > GetS(s.saves, 1) THEN SetS(s.saves, 0, GetS(s.saves, 1)) ELSE s.saves
              sv2 == IF env.ns >= 2 /\ GetS(sv, 0) < env.pos THEN SetS(sv, 0, env.pos) ELSE sv
          IN [s EXCEPT !.saves = sv2, !.st = "match"]
     [] op = "Any" ->
          IF s.ix < BLen(env) THEN (IF Boundary(env, s.ix) < 0 THEN [s EXCEPT !.st = "panic"] ELSE Nxt([s EXCEPT !.ix = @ + Width(TokAt(env, s.ix))]))
          ELSE Fail(s)
     [] op = "AnyNoNL" ->
          IF s.ix < BLen(env) /\ Boundary(env, s.ix) < 0 THEN [s EXCEPT !.st = "panic"]
          ELSE IF s.ix < BLen(env) /\ TokAt(env, s.ix) # "N" THEN Nxt([s EXCEPT !.ix = @ + Width(TokAt(env, s.ix))]) ELSE Fail(s)
     [] op = "Lit" -> IF LitAt(env, s.ix, ins.s) THEN Nxt([s EXCEPT !.ix = @ + LitBytes(ins.s)]) ELSE Fail(s)
     [] op = "Assert" ->
          IF Boundary(env, s.ix) < 0 THEN [s EXCEPT !.st = "panic"]
          ELSE IF AssertHolds(ins.a, Boundary(env, s.ix), cx) THEN Nxt(s) ELSE Fail(s)
     [] op = "Split" -> LET s2 == PushBranch(s, env, ins.y, s.ix) IN IF s2.st = "run" THEN Goto(s2, ins.x) ELSE s2
     [] op = "Jmp" -> Goto(s, ins.t)
     [] op = "Save" -> Nxt([s EXCEPT !.saves = SetS(@, ins.slot, s.ix)])
     [] op = "Save0" -> Nxt([s EXCEPT !.saves = SetS(@, ins.slot, 0)])
     [] op = "Restore" -> Nxt([s EXCEPT !.ix = GetS(s.saves, ins.slot)])
     [] op = "RepeatGr" ->
          LET rc == GetS(s.saves, ins.rep) IN
          IF rc = ins.hi THEN Goto(s, ins.next)
          ELSE LET s1 == [s EXCEPT !.saves = SetS(@, ins.rep, rc + 1)]
                   s2 == IF rc >= ins.lo THEN PushBranch(s1, env, ins.next, s.ix) ELSE s1
               IN IF s2.st = "run" THEN Nxt(s2) ELSE s2
     [] op = "RepeatNg" ->
          LET rc == GetS(s.saves, ins.rep) IN
          IF rc = ins.hi THEN Goto(s, ins.next)
          ELSE LET s1 == [s EXCEPT !.saves = SetS(@, ins.rep, rc + 1)]
               IN IF rc >= ins.lo THEN (LET s2 == PushBranch(s1, env, s.pc + 1, s.ix) IN IF s2.st = "run" THEN Goto(s2, ins.next) ELSE s2)
                  ELSE Nxt(s1)
     [] op = "RepeatEpsilonGr" ->
          LET rc == GetS(s.saves, ins.rep) IN
          IF rc > ins.lo /\ GetS(s.saves, ins.check) = s.ix THEN Fail(s)       \* RejectEmptyIterationAfterMin (finding F1)
          ELSE LET s1 == [s EXCEPT !.saves = SetS(@, ins.rep, rc + 1)]
                   s2 == IF rc >= ins.lo THEN PushBranch([s1 EXCEPT !.saves = SetS(@, ins.check, s.ix)], env, ins.next, s.ix) ELSE s1
               IN IF s2.st = "run" THEN Nxt(s2) ELSE s2
     [] op = "RepeatEpsilonNg" ->
          LET rc == GetS(s.saves, ins.rep) IN
          IF rc > ins.lo /\ GetS(s.saves, ins.check) = s.ix THEN Fail(s)
          ELSE LET s1 == [s EXCEPT !.saves = SetS(@, ins.rep, rc + 1)]
               IN IF rc >= ins.lo
                  THEN (LET s2 == PushBranch([s1 EXCEPT !.saves = SetS(@, ins.check, s.ix)], env, s.pc + 1, s.ix)
                        IN IF s2.st = "run" THEN Goto(s2, ins.next) ELSE s2)
                  ELSE Nxt(s1)
     [] op = "GoBack" ->
          LET i == Boundary(env, s.ix) IN
          IF i < 0 THEN [s EXCEPT !.st = "panic"]
          ELSE LET j == GoBackFrom(env, i, ins.n) IN IF j < 0 THEN Fail(s) ELSE Nxt([s EXCEPT !.ix = ByteOf(env, j)])
     [] op = "FailNegativeLookAround" ->
          LET r == PopUntil(s.stack, s.pc + 1) IN
          IF r[1] = "panic" THEN [s EXCEPT !.st = "panic"]
          ELSE [s EXCEPT !.stack = r[2], !.saves = r[3], !.st = "fail"]
     [] op = "Backref" ->
          LET lo == GetS(s.saves, ins.slot)  hi == GetS(s.saves, ins.slot + 1) IN
          IF lo = -1 \/ hi = -1 THEN Fail(s)
          ELSE IF lo > hi THEN Fail(s)
          ELSE IF Boundary(env, lo) < 0 \/ Boundary(env, hi) < 0 \/ hi > BLen(env) THEN [s EXCEPT !.st = "panic"]
          ELSE LET ref == SubSeq(env.t, Boundary(env, lo) + 1, Boundary(env, hi))
               IN IF s.ix + (hi - lo) <= BLen(env) /\ LitAt(env, s.ix, ref) THEN Nxt([s EXCEPT !.ix = @ + (hi - lo)]) ELSE Fail(s)
     [] op = "BackrefExistsCondition" -> IF GetS(s.saves, ins.group * 2) = -1 THEN Fail(s) ELSE Nxt(s)
     [] op = "BeginAtomic" -> Nxt([s EXCEPT !.saves = XPush(@, env.ns, Len(s.stack))])
     [] op = "EndAtomic" ->
          IF XDepthOf(s.saves, env.ns) <= 0 THEN [s EXCEPT !.st = "panic"]
          ELSE LET cnt == XTop(s.saves, env.ns) IN
               IF cnt > Len(s.stack) THEN [s EXCEPT !.st = "panic"]
               ELSE Nxt([s EXCEPT !.saves = XPop(@, env.ns), !.stack = SubSeq(@, 1, cnt)])
     [] op = "Delegate" ->
          LET r == DelegateRun(env, s.ix, ins) IN
          IF r[1] = "panic" THEN [s EXCEPT !.st = "panic"]
          ELSE IF r[1] = "none" THEN Fail(s)
          ELSE Nxt([s EXCEPT !.ix = ByteOf(env, r[2].i),
                             !.saves = IF ins.sg = ins.eg THEN @ ELSE WriteGroups(@, env, r[2].caps, ins.sg, ins.eg - ins.sg, 1)])
     [] op = "ContinueFromPreviousMatchEnd" -> IF s.ix > env.pos \/ env.skip THEN Fail(s) ELSE Nxt(s)

(***************************************************************************)
(* Backtrack: what follows `break 'fail`.  Precondition s.st = "fail".     *)
(***************************************************************************)
Backtrack(s, env) ==
   IF s.stack = <<>> THEN [s EXCEPT !.st = "nomatch"]
   ELSE IF s.bt + 1 > env.limit THEN [s EXCEPT !.bt = @ + 1, !.st = "err_limit"]
   ELSE LET b == s.stack[Len(s.stack)]
        IN [s EXCEPT !.bt = @ + 1, !.pc = b.pc, !.ix = b.ix, !.saves = b.saves, !.stack = SubSeq(@, 1, Len(@) - 1), !.st = "run"]

Step(s, env) == IF s.st = "run" THEN Exec(s, env) ELSE IF s.st = "fail" THEN Backtrack(s, env) ELSE s
Terminal(s) == s.st \notin {"run", "fail"}
RECURSIVE RunToEnd(_, _, _)
RunToEnd(s, env, fuel) == IF Terminal(s) THEN s ELSE IF fuel = 0 THEN [s EXCEPT !.st = "fuel"] ELSE RunToEnd(Step(s, env), env, fuel - 1)

\* ---------- invariants of every state (C05 / C07 / C15 vocabulary) ----------
OnBoundary(s, env) == s.st \in {"run", "fail", "match"} => Boundary(env, s.ix) >= 0
NoPanic(s) == s.st # "panic"
\* capture slots hold -1 or a byte offset on a boundary
CaptureSlotsValid(s, env, ncap) == \A j \in 1..(2 * ncap) : s.saves[j] = -1 \/ Boundary(env, s.saves[j]) >= 0
\* the final answer: overall span ordered and inside the text
AnswerValid(s, env) == s.st = "match" /\ env.ns >= 2 => (env.pos <= s.saves[1] /\ s.saves[1] <= s.saves[2] /\ s.saves[2] <= BLen(env))
=============================================================================
