-------------------------------- MODULE Api --------------------------------
(***************************************************************************)
(* The search API above a single search ("leaf"): the iterators Matches /  *)
(* CaptureMatches, Split, SplitN and try_replacen of src/lib.rs, as STATE  *)
(* MACHINES over a leaf function, and the reference objects the            *)
(* properties C08-C11 talk about.                                          *)
(*                                                                         *)
(* Positions are CHARACTER positions.  A leaf result is either <<>> (no    *)
(* match), a capture vector (RefSem!Search format, slots 1,2 = overall     *)
(* span) or ErrV = <<-1>>.      The leaf CONTRACT every iterator relies on: *)
(*     pos <= start <= end <= Len(text)                                    *)
(*                                                                         *)
(* Iterator state (Matches):                                               *)
(*   le   last_end: where the next search starts; Len+1 = exhausted        *)
(*   lm   last_match: end of the previous yielded match, -1 = none         *)
(***************************************************************************)
EXTENDS Naturals, Integers, Sequences

ErrV == <<-1>>          \* the error value (leaf result, item or piece)
Runaway == <<-2>>       \* fuel exhausted: the iterator did not stop (never expected)
IsErr(r) == Len(r) = 1 /\ r[1] = -1
LeafContract(r, pos, n) == r = <<>> \/ IsErr(r) \/ (pos <= r[1] /\ r[1] <= r[2] /\ r[2] <= n)

\* the flag Matches::next hands to the engine: an empty match was skipped just before this search
SkipFlag(le, lm) == lm >= 0 /\ le > lm

(***************************************************************************)
(* AfterLeaf: what Matches::next does with the result r of the search it   *)
(* started at le.  kind:                                                   *)
(*   "yield"  item is returned            "none"  iterator is exhausted    *)
(*   "err"    Err is returned, iterator poisoned (le = n+1)                *)
(*   "retry"  an empty match adjacent to the previous match was dropped;   *)
(*            the code calls next() again (one more search, one char on)   *)
(***************************************************************************)
AfterLeaf(r, le, lm, n) ==
   IF IsErr(r) THEN [kind |-> "err", item |-> ErrV, le |-> n + 1, lm |-> lm]
   ELSE IF r = <<>> THEN [kind |-> "none", item |-> <<>>, le |-> le, lm |-> lm]
   ELSE IF r[1] = r[2]
        THEN (IF r[2] = lm THEN [kind |-> "retry", item |-> <<>>, le |-> r[2] + 1, lm |-> lm]
              ELSE [kind |-> "yield", item |-> r, le |-> r[2] + 1, lm |-> r[2]])
        ELSE [kind |-> "yield", item |-> r, le |-> r[2], lm |-> r[2]]

(***************************************************************************)
(* One call of Matches::next() over a leaf TABLE                            *)
(*    leaf[<<pos, skip>>]   for pos \in 0..n, skip \in BOOLEAN.            *)
(* Result [item, le, lm], item = <<>> (none) | ErrV | capture vector.          *)
(***************************************************************************)
RECURSIVE MatchesNext(_, _, _, _)
MatchesNext(leaf, le, lm, n) ==
   IF le > n THEN [item |-> <<>>, le |-> le, lm |-> lm]
   ELSE LET x == AfterLeaf(leaf[<<le, SkipFlag(le, lm)>>], le, lm, n)
        IN IF x.kind = "retry" THEN MatchesNext(leaf, x.le, x.lm, n) ELSE [item |-> x.item, le |-> x.le, lm |-> x.lm]

\* the whole sequence of items find_iter yields (stops at the first "none"; an "err" is an item)
RECURSIVE IterItems(_, _, _, _, _)
IterItems(leaf, le, lm, n, fuel) ==
   IF fuel = 0 THEN <<Runaway>>
   ELSE LET x == MatchesNext(leaf, le, lm, n)
        IN IF x.item = <<>> THEN <<>> ELSE <<x.item>> \o IterItems(leaf, x.le, x.lm, n, fuel - 1)
FindIter(leaf, n) == IterItems(leaf, 0, -1, n, n + 3)

(***************************************************************************)
(* Split / SplitN over the items of the SAME Matches machine.  Pieces are  *)
(* spans <<from, to>> (character positions).  State: ns = next_start       *)
(* (n+1 = finished), plus the Matches state.                               *)
(***************************************************************************)
SplitAfter(x, ns, n) ==   \* x = result of the inner Matches::next
   IF x.item = <<>>
   THEN (IF ns > n THEN [piece |-> <<>>, ns |-> ns, le |-> x.le, lm |-> x.lm]
         ELSE [piece |-> <<ns, n>>, ns |-> n + 1, le |-> x.le, lm |-> x.lm])
   ELSE IF IsErr(x.item) THEN [piece |-> ErrV, ns |-> ns, le |-> x.le, lm |-> x.lm]
   ELSE [piece |-> <<ns, x.item[1]>>, ns |-> x.item[2], le |-> x.le, lm |-> x.lm]
SplitNext(leaf, ns, le, lm, n) == SplitAfter(MatchesNext(leaf, le, lm, n), ns, n)

RECURSIVE SplitPieces(_, _, _, _, _, _)
SplitPieces(leaf, ns, le, lm, n, fuel) ==
   IF fuel = 0 THEN <<Runaway>>
   ELSE LET x == SplitNext(leaf, ns, le, lm, n)
        IN IF x.piece = <<>> THEN <<>> ELSE <<x.piece>> \o SplitPieces(leaf, x.ns, x.le, x.lm, n, fuel - 1)
Split(leaf, n) == SplitPieces(leaf, 0, 0, -1, n, n + 4)

\* SplitN::next: limit countdown; the last allowed piece is the untouched remainder
SplitNNext(leaf, limit, ns, le, lm, n) ==
   IF limit = 0 THEN [piece |-> <<>>, limit |-> 0, ns |-> ns, le |-> le, lm |-> lm]
   ELSE IF limit - 1 > 0
        THEN LET x == SplitNext(leaf, ns, le, lm, n) IN [piece |-> x.piece, limit |-> limit - 1, ns |-> x.ns, le |-> x.le, lm |-> x.lm]
        ELSE IF ns > n THEN [piece |-> <<>>, limit |-> 0, ns |-> ns, le |-> le, lm |-> lm]
             ELSE [piece |-> <<ns, n>>, limit |-> 0, ns |-> n + 1, le |-> le, lm |-> lm]
RECURSIVE SplitNPieces(_, _, _, _, _, _, _)
SplitNPieces(leaf, limit, ns, le, lm, n, fuel) ==
   IF fuel = 0 THEN <<Runaway>>
   ELSE LET x == SplitNNext(leaf, limit, ns, le, lm, n)
        IN IF x.piece = <<>> THEN <<>> ELSE <<x.piece>> \o SplitNPieces(leaf, x.limit, x.ns, x.le, x.lm, n, fuel - 1)
SplitN(leaf, limit, n) == SplitNPieces(leaf, limit, 0, 0, -1, n, n + 4)

(***************************************************************************)
(* REFERENCE objects (what the properties promise), stated directly on a   *)
(* list of matches ms = << <<s1,e1>>, ... >> and the text length n.        *)
(***************************************************************************)
\* pieces between consecutive matches: one more than there are matches
RefSplit(ms, n) == [j \in 1..(Len(ms) + 1) |-> << IF j = 1 THEN 0 ELSE ms[j - 1][2], IF j > Len(ms) THEN n ELSE ms[j][1] >>]
\* first k-1 pieces of split, then the untouched remainder; k = 0 yields nothing
RefSplitN(ms, n, k) ==
   LET full == RefSplit(ms, n) IN
   IF k = 0 THEN <<>>
   ELSE IF k >= Len(full) THEN full
   ELSE [j \in 1..k |-> IF j < k THEN full[j] ELSE << full[k][1], n >>]

\* replacement: text with the first k matches (all if k = 0) replaced; outs[j] = replacement of match j
RECURSIVE RefReplace(_, _, _, _, _)
RefReplace(t, ms, outs, k, j) ==   \* j = index of next match, returns the text from the end of match j-1 on
   LET from == IF j = 1 THEN 0 ELSE ms[j - 1][2]
       stop == (k > 0 /\ j > k) \/ j > Len(ms)
   IN IF stop THEN SubSeq(t, from + 1, Len(t))
      ELSE SubSeq(t, from + 1, ms[j][1]) \o outs[j] \o RefReplace(t, ms, outs, k, j + 1)

\* properties of an item sequence (C08), on spans
Spans(items) == [j \in 1..Len(items) |-> <<items[j][1], items[j][2]>>]
Ordered(sp) == \A j \in 1..(Len(sp) - 1) : sp[j][2] <= sp[j + 1][1] /\ (sp[j][1] < sp[j + 1][1] \/ sp[j][2] < sp[j + 1][2])
=============================================================================
