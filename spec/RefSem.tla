------------------------------ MODULE RefSem ------------------------------
(***************************************************************************)
(* Reference semantics of patterns: leftmost, priority-ordered             *)
(* (Perl / Oniguruma style) backtracking, in denotational "list of         *)
(* successes" form.                                                        *)
(*                                                                         *)
(*   R(e, st, cx)  = the ORDERED sequence of all states in which matching  *)
(*                   e from state st can end; earlier = higher priority.   *)
(*   st = [i |-> character position, caps |-> capture slots]               *)
(*   cx = [t |-> text, pos |-> search offset, skip |-> "an empty match was *)
(*         skipped just before this search" (only \G looks at it)]         *)
(*                                                                         *)
(* caps is a sequence of 2*(ng+1) integers; slot pair G1(n),G2(n) is the   *)
(* span of group n in CHARACTER positions, NoCap when unset.  Group 0 is   *)
(* the overall match; \K overwrites its start.                             *)
(*                                                                         *)
(* This module says what a pattern MEANS.  It knows nothing about          *)
(* delegation, instructions or undo logs (see Analyze, Compile, VM,        *)
(* SaveLog for the engine as built).                                       *)
(***************************************************************************)
EXTENDS Text, Ast, TLC

NoCap == -1
G1(n) == 2 * n + 1
G2(n) == 2 * n + 2

Adv(st) == [st EXCEPT !.i = @ + 1]

CharMatches(e, c) ==
   CASE e.k = "lit"   -> IF e.ci THEN Fold(c) = Fold(e.c) ELSE c = e.c
     [] e.k = "any"   -> e.nl \/ c # "N"
     [] e.k = "class" -> LET in == IF e.ci THEN \E j \in 1..Len(e.set) : Fold(e.set[j]) = Fold(c)
                                           ELSE \E j \in 1..Len(e.set) : e.set[j] = c
                         IN in # e.neg

AssertHolds(k, i, cx) ==
   LET t == cx.t IN
   CASE k = "bol"  -> i = 0
     [] k = "eol"  -> i = Len(t)
     [] k = "mbol" -> i = 0 \/ t[i] = "N"
     [] k = "meol" -> i = Len(t) \/ t[i + 1] = "N"
     [] k = "wb"   -> WordBefore(t, i) # WordAfter(t, i)
     [] k = "nwb"  -> WordBefore(t, i) = WordAfter(t, i)
     [] k = "lwb"  -> ~WordBefore(t, i) /\ WordAfter(t, i)
     [] k = "rwb"  -> WordBefore(t, i) /\ ~WordAfter(t, i)
     [] k = "eolz" -> \A j \in (i + 1)..Len(t) : t[j] = "N"

(***************************************************************************)
(* EmptyIterationRule: what happens when an iteration of an UNBOUNDED      *)
(* repeat, taken after the minimum count is reached, consumes nothing.     *)
(* Perl (and the automata engine): the iteration is accepted and the loop  *)
(* is left.  (The VM as built fails that thread instead -- finding F1; the *)
(* class is kept out of exploration by Ast!Excluded_F1.)                   *)
(***************************************************************************)
EmptyIterationLeavesLoop == TRUE

RECURSIVE R(_, _, _), CatR(_, _, _, _), Each(_, _, _, _), RepR(_, _, _, _), RepEach(_, _, _, _, _, _),
          AltR(_, _, _, _), LookBArms(_, _, _, _), ArmFirst(_, _, _, _)

Each(e, sts, j, cx) == IF j > Len(sts) THEN <<>> ELSE R(e, sts[j], cx) \o Each(e, sts, j + 1, cx)
CatR(xs, j, sts, cx) == IF j > Len(xs) \/ sts = <<>> THEN sts ELSE CatR(xs, j + 1, Each(xs[j], sts, 1, cx), cx)
AltR(xs, j, st, cx) == IF j > Len(xs) THEN <<>> ELSE R(xs[j], st, cx) \o AltR(xs, j + 1, st, cx)

\* continue after one more iteration from each end state of the body (i0 = position the iteration started at)
RepEach(e, sts, j, n, i0, cx) ==
   IF j > Len(sts) THEN <<>>
   ELSE (IF e.hi < 0 /\ n >= e.lo /\ sts[j].i = i0 /\ EmptyIterationLeavesLoop
         THEN <<sts[j]>>
         ELSE RepR(e, sts[j], n + 1, cx))
        \o RepEach(e, sts, j + 1, n, i0, cx)
\* n iterations done so far
RepR(e, st, n, cx) ==
   LET more == IF e.hi < 0 \/ n < e.hi THEN RepEach(e, R(e.x, st, cx), 1, n, st.i, cx) ELSE <<>>
       stop == IF n >= e.lo THEN <<st>> ELSE <<>>
   IN IF e.g THEN more \o stop ELSE stop \o more

\* first way in which arm matches a piece of text ENDING at st.i (look-behind); <<>> if none.
\* js = candidate start positions in the order to try.
ArmFirst(arm, js, st, cx) ==
   IF js = <<>> THEN <<>>
   ELSE LET rs == SelectSeq(R(arm, [st EXCEPT !.i = Head(js)], cx), LAMBDA r : r.i = st.i)
        IN IF rs # <<>> THEN <<rs[1]>> ELSE ArmFirst(arm, Tail(js), st, cx)
ArmStarts(arm, i) == LET n == FixLen(arm)
                     IN IF n >= 0 THEN (IF i >= n THEN <<i - n>> ELSE <<>>)
                        ELSE [q \in 1..(i + 1) |-> i + 1 - q]
\* `(?<=a|bb)` means `(?<=a)|(?<=bb)`: one success per matching alternative, each atomic
LookBArms(arms, j, st, cx) ==
   IF j > Len(arms) THEN <<>>
   ELSE ArmFirst(arms[j], ArmStarts(arms[j], st.i), st, cx) \o LookBArms(arms, j + 1, st, cx)
LookBehindArms(x) == IF x.k = "alt" /\ FixLen(x) < 0 THEN x.xs ELSE <<x>>

R(e, st, cx) ==
  CASE e.k = "empty" -> <<st>>
    [] e.k \in CharKinds -> IF st.i < Len(cx.t) /\ CharMatches(e, cx.t[st.i + 1]) THEN <<Adv(st)>> ELSE <<>>
    [] e.k = "cat"   -> CatR(e.xs, 1, <<st>>, cx)
    [] e.k = "alt"   -> AltR(e.xs, 1, st, cx)
    [] e.k = "rep"   -> RepR(e, st, 0, cx)
    [] e.k = "grp"   -> LET rs == R(e.x, [st EXCEPT !.caps[G1(e.n)] = st.i], cx)
                        IN [j \in 1..Len(rs) |-> [rs[j] EXCEPT !.caps[G2(e.n)] = rs[j].i]]
    [] e.k = "atom"  -> LET rs == R(e.x, st, cx) IN IF rs = <<>> THEN <<>> ELSE <<rs[1]>>
    [] e.k = "look"  -> LET rs == R(e.x, st, cx)
                        IN IF e.neg THEN (IF rs = <<>> THEN <<st>> ELSE <<>>)
                           ELSE (IF rs = <<>> THEN <<>> ELSE <<[rs[1] EXCEPT !.i = st.i]>>)
    [] e.k = "lookb" -> LET rs == LookBArms(LookBehindArms(e.x), 1, st, cx)
                        IN IF e.neg THEN (IF rs = <<>> THEN <<st>> ELSE <<>>)
                           ELSE [j \in 1..Len(rs) |-> [rs[j] EXCEPT !.i = st.i]]
    [] e.k = "bref"  -> LET lo == st.caps[G1(e.n)]  hi == st.caps[G2(e.n)]
                        IN IF lo = NoCap \/ hi = NoCap \/ lo > hi THEN <<>>
                           ELSE IF st.i + (hi - lo) <= Len(cx.t)
                                   /\ SubSeq(cx.t, lo + 1, hi) = SubSeq(cx.t, st.i + 1, st.i + hi - lo)
                                THEN <<[st EXCEPT !.i = @ + (hi - lo)]>> ELSE <<>>
    [] e.k = "bex"   -> IF st.caps[G1(e.n)] # NoCap THEN <<st>> ELSE <<>>
    [] e.k = "cond"  -> LET rs == R(e.c, st, cx) IN IF rs # <<>> THEN R(e.y, rs[1], cx) ELSE R(e.n, st, cx)
    [] e.k = "keep"  -> <<[st EXCEPT !.caps[1] = st.i]>>
    [] e.k = "cont"  -> IF st.i = cx.pos /\ ~cx.skip THEN <<st>> ELSE <<>>
    [] e.k \in AssertKinds -> IF AssertHolds(e.k, st.i, cx) THEN <<st>> ELSE <<>>

InitCaps(ng, p) == [j \in 1..(2 * ng + 2) |-> IF j = 1 THEN p ELSE NoCap]

\* the reported overall start: \K may have moved it; it is clipped into [search offset, end]
ClipStart(s, pos, end) == IF s > end THEN end ELSE IF s < pos THEN pos ELSE s

(***************************************************************************)
(* Search: attempts at pos, pos+1, ... ; the first attempt with a success  *)
(* wins and its highest-priority success is the match.  Result: the final  *)
(* capture vector (character positions), or <<>> for "no match".           *)
(***************************************************************************)
RECURSIVE SearchAt(_, _, _, _)
SearchAt(e, ng, p, cx) ==
   IF p > Len(cx.t) THEN <<>>
   ELSE LET rs == R(e, [i |-> p, caps |-> InitCaps(ng, p)], cx)
        IN IF rs # <<>>
           THEN LET c == rs[1].caps  end == rs[1].i
                IN [[c EXCEPT ![2] = end] EXCEPT ![1] = ClipStart(c[1], cx.pos, end)]
           ELSE SearchAt(e, ng, p + 1, cx)

SearchF(e, ng, t, pos, skip) == SearchAt(e, ng, pos, [t |-> t, pos |-> pos, skip |-> skip])
Search(e, ng, t, pos) == SearchF(e, ng, t, pos, FALSE)

(***************************************************************************)
(* SearchAll: the function  offset |-> Search result  for all offsets of   *)
(* one text at once.  When the pattern does not contain \G an attempt at   *)
(* position q does not depend on the search offset, so each attempt is     *)
(* evaluated once and shared by all offsets <= q (same meaning, 2-3x       *)
(* faster in TLC); only the clipping of a \K-moved start depends on it.    *)
(***************************************************************************)
RECURSIVE FirstFrom(_, _, _)
FirstFrom(A, q, n) == IF q > n THEN -1 ELSE IF A[q] # <<>> THEN q ELSE FirstFrom(A, q + 1, n)
SearchAll(e, ng, t) ==
   IF HasKind(e, {"cont"})
   THEN [p \in 0..Len(t) |-> Search(e, ng, t, p)]
   ELSE LET cx == [t |-> t, pos |-> 0, skip |-> FALSE]
            A == TLCEval([q \in 0..Len(t) |-> R(e, [i |-> q, caps |-> InitCaps(ng, q)], cx)])
        IN [p \in 0..Len(t) |->
              LET q == FirstFrom(A, p, Len(t))
              IN IF q < 0 THEN <<>>
                 ELSE LET c == A[q][1].caps  end == A[q][1].i
                      IN [[c EXCEPT ![2] = end] EXCEPT ![1] = ClipStart(c[1], p, end)]]

\* capture vector converted to byte offsets (what the implementation reports)
CapsToBytes(t, c) == LET o == Offs(t) IN [j \in 1..Len(c) |-> IF c[j] = NoCap THEN NoCap ELSE o[c[j]]]
=============================================================================
