SPECIFICATION Spec
INVARIANT NeverPanics
INVARIANT AlwaysOnBoundary
INVARIANT SlotsValid
INVARIANT AnswerIsValid
INVARIANT Terminates
INVARIANT NoRuntimeError
INVARIANT AgreesWithRefSem
CHECK_DEADLOCK FALSE
