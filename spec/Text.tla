------------------------------- MODULE Text -------------------------------
(***************************************************************************)
(* Text model shared by every other module.                                *)
(*                                                                         *)
(* A text is a sequence of TOKENS, one token per Unicode scalar value.     *)
(* Tokens are ASCII strings because TLC's Json module cannot carry         *)
(* non-ASCII characters; the harness owns the token <-> UTF-8 table, this  *)
(* module owns everything the properties talk about: byte widths, byte     *)
(* offsets, character boundaries, word/non-word classes, case folding and  *)
(* the code's own UTF-8 helpers (codepoint_len on an arbitrary byte,       *)
(* prev_codepoint_ix, next_utf8).                                          *)
(*                                                                         *)
(*   token   character            bytes  \w                                *)
(*   a b c   a b c                1      yes                               *)
(*   A B C   A B C                1      yes   (case partners of a b c)    *)
(*   x y     x y                  1      yes                               *)
(*   0 1 9   digits               1      yes                               *)
(*   U       _                    1      yes                               *)
(*   E       e-acute  U+00E9      2      yes                               *)
(*   T       hiragana a U+3042    3      yes                               *)
(*   Z       E-acute  U+00C9      2      yes   (upper-case partner of E)   *)
(*   K       Thai ko kai U+0E01   3      yes   (lead byte 0xE0, the lowest *)
(*                                              of the 3-byte range)       *)
(*   Q       U+1F600 (emoji)      4      no                                *)
(*   N       line feed            1      no                                *)
(*   D       -                    1      no                                *)
(*   S       space                1      no                                *)
(*   R       carriage return      1      no                                *)
(* Positions inside the specification are CHARACTER positions 0..Len(t);   *)
(* the implementation reports BYTE offsets; ByteOff / CharPos convert and  *)
(* judge boundary-ness.                                                    *)
(***************************************************************************)
EXTENDS Naturals, Integers, Sequences

Width(c) == CASE c = "E" -> 2 [] c = "Z" -> 2 [] c = "T" -> 3 [] c = "K" -> 3 [] c = "Q" -> 4 [] OTHER -> 1

WordTok == {"a", "b", "c", "A", "B", "C", "x", "y", "0", "1", "9", "U", "E", "Z", "T", "K"}
IsWordTok(c) == c \in WordTok

Fold(c) == CASE c = "A" -> "a" [] c = "B" -> "b" [] c = "C" -> "c" [] c = "Z" -> "E" [] OTHER -> c

\* byte offset of character position i (0..Len(t))
RECURSIVE ByteOff(_, _)
ByteOff(t, i) == IF i = 0 THEN 0 ELSE ByteOff(t, i - 1) + Width(t[i])

ByteLen(t) == ByteOff(t, Len(t))

\* all byte offsets of t as a function of the character position
Offs(t) == [i \in 0..Len(t) |-> ByteOff(t, i)]

\* character position of byte offset b, or -1 when b is not a character boundary of t
CharPos(t, b) == LET o == Offs(t)
                     S == {i \in 0..Len(t) : o[i] = b}
                 IN IF S = {} THEN -1 ELSE CHOOSE i \in S : TRUE

IsBoundary(t, b) == CharPos(t, b) >= 0

\* word character immediately before / after character position i
WordBefore(t, i) == i >= 1 /\ i <= Len(t) /\ IsWordTok(t[i])
WordAfter(t, i)  == i >= 0 /\ i < Len(t) /\ IsWordTok(t[i + 1])

\* lib.rs::next_utf8 on a boundary: one character further, or len+1 at the end (in characters)
NextUtf8(t, i) == i + 1

\* the sub-text t[i+1 .. j] (character positions i < j)
Slice(t, i, j) == SubSeq(t, i + 1, j)

\* ----- bounded text spaces (canonical order: by length, then lexicographic in SIG order) -----
RECURSIVE TextsOfLen(_, _)
TextsOfLen(sig, n) ==
   IF n = 0 THEN << <<>> >>
   ELSE LET prev == TextsOfLen(sig, n - 1)
            m == Len(sig)
        IN [q \in 1..(Len(prev) * m) |-> Append(prev[((q - 1) \div m) + 1], sig[((q - 1) % m) + 1])]

RECURSIVE TextsUpTo(_, _)
TextsUpTo(sig, n) == IF n = 0 THEN TextsOfLen(sig, 0) ELSE TextsUpTo(sig, n - 1) \o TextsOfLen(sig, n)

SIG6 == <<"a", "b", "c", "E", "N", "D">>
=============================================================================
