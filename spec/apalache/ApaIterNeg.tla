------------------------------ MODULE ApaIterNeg ------------------------------
(***************************************************************************)
(* The Matches iterator (lib.rs, Api!AfterLeaf) over integers only, for    *)
(* Apalache: an INDUCTIVE invariant shows, for EVERY text length n and     *)
(* every leaf behaviour allowed by the leaf contract                       *)
(* (pos <= start <= end <= n), that find_iter's items never overlap, never *)
(* start before the previous end and strictly increase -- without the      *)
(* bound MaxN of MC_Iter.  (lastS, lastE) = the last yielded span.         *)
(*   apalache-mc check --init=IndInit --inv=IndInv --length=1 ApaIter.tla  *)
(*   apalache-mc check --init=Init --inv=IndInv --length=0 ApaIter.tla     *)
(***************************************************************************)
EXTENDS Integers

CONSTANT
    \* @type: Int;
    N

VARIABLES
    \* @type: Int;
    le,
    \* @type: Int;
    lm,
    \* @type: Int;
    lastS,
    \* @type: Int;
    lastE,
    \* @type: Bool;
    ok

ConstInit == N \in Nat

Init == le = 0 /\ lm = -1 /\ lastS = -1 /\ lastE = -1 /\ ok = TRUE

\* the search at le returned the span (s, e) obeying the leaf contract
Found(s, e) ==
    /\ le <= N /\ 0 <= s /\ s <= e /\ e <= N
    /\ IF s = e
       THEN IF e = lm
            THEN \* dropped: retry one character further
                 /\ le' = e + 1 /\ UNCHANGED <<lm, lastS, lastE, ok>>
            ELSE /\ le' = e + 1 /\ lm' = e /\ lastS' = s /\ lastE' = e
                 /\ ok' = (ok /\ (lastE <= s) /\ (lastS < s \/ lastE < e))
       ELSE /\ le' = e /\ lm' = e /\ lastS' = s /\ lastE' = e
            /\ ok' = (ok /\ (lastE <= s) /\ (lastS < s \/ lastE < e))

\* no match / error: the iterator stops (le = N + 1 poisons it)
Stop == le <= N /\ le' = N + 1 /\ UNCHANGED <<lm, lastS, lastE, ok>>
Stutter == le > N /\ UNCHANGED <<le, lm, lastS, lastE, ok>>

Next == (\E s \in 0..N : \E e \in 0..N : Found(s, e)) \/ Stop \/ Stutter

\* the inductive invariant
IndInv ==
    /\ ok
    /\ le >= 0 /\ le <= N + 1
    /\ lm >= -1 /\ lm <= N
    /\ (lm = -1 => (lastS = -1 /\ lastE = -1))
    /\ (lm >= 0 => (lastE = lm /\ lastS >= 0 /\ lastS <= lastE /\ le >= lm /\ (lastS = lastE => le >= lm + 1)))
\* termination: every search moves the cursor forward, so at most N + 2 searches happen (action invariant)
Progress == le' > le \/ (le > N /\ le' = le)
\* Split on top: the next piece <<ns, s>> is a valid slice because ns is the end of the previous match
PieceValid == lm >= 0 => lastE <= le
IndInit == le \in Int /\ lm \in Int /\ lastS \in Int /\ lastE \in Int /\ ok \in BOOLEAN /\ IndInv
=============================================================================
