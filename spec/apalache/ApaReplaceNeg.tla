------------------------------ MODULE ApaReplaceNeg ------------------------------
(***************************************************************************)
(* try_replacen (lib.rs) over the Matches / CaptureMatches iterator, over  *)
(* integers only, for Apalache: for EVERY text length N, every limit K     *)
(* (0 = all) and every leaf behaviour allowed by the leaf contract,        *)
(*   - every copied stretch text[last..s] and the final text[last..] is a  *)
(*     valid slice,                                                        *)
(*   - the copied stretches and the replaced matches tile the text: every  *)
(*     byte is either inside one of the first K matches or copied exactly  *)
(*     once, in order (C11: "every other byte is unchanged"),              *)
(*   - at most K matches are replaced when K > 0,                          *)
(*   - a search error ends the call with Err (no output).                  *)
(* phase: "loop" | "done" (output complete) | "err".  i = number of items  *)
(* fetched so far (enumerate index of the next one).                       *)
(***************************************************************************)
EXTENDS Integers

CONSTANTS
    \* @type: Int;
    N,
    \* @type: Int;
    K

VARIABLES
    \* @type: Int;
    le,
    \* @type: Int;
    lm,
    \* @type: Int;
    last,
    \* @type: Int;
    tiled,
    \* @type: Int;
    i,
    \* @type: Int;
    replaced,
    \* @type: Str;
    phase,
    \* @type: Bool;
    ok

ConstInit == N \in Nat /\ K \in Nat

Init == le = 0 /\ lm = -1 /\ last = 0 /\ tiled = 0 /\ i = 0 /\ replaced = 0 /\ phase = "loop" /\ ok = TRUE

\* after the loop: new.push_str(&text[last_match..])
Finish == /\ ok' = (ok /\ last <= N /\ tiled = last) /\ tiled' = N /\ phase' = "done"

Found(s, e) ==
    /\ phase = "loop" /\ le <= N /\ s <= e /\ e <= N      \* NEGATIVE CONTROL: no lower bound on the match start
    /\ IF s = e /\ e = lm
       THEN /\ le' = e + 1 /\ UNCHANGED <<lm, last, tiled, i, replaced, phase, ok>>         \* dropped inside Matches::next
       ELSE /\ le' = (IF s = e THEN e + 1 ELSE e) /\ lm' = e /\ i' = i + 1
            /\ IF K > 0 /\ i >= K
               THEN /\ Finish /\ UNCHANGED <<last, replaced>>                                  \* break, then the tail
               ELSE /\ ok' = (ok /\ last <= s /\ tiled = last)
                    /\ tiled' = e /\ last' = e /\ replaced' = replaced + 1 /\ UNCHANGED phase

NoMore == /\ phase = "loop" /\ Finish /\ UNCHANGED <<le, lm, last, i, replaced>>
Error  == /\ phase = "loop" /\ le <= N /\ le' = N + 1 /\ phase' = "err" /\ UNCHANGED <<lm, last, tiled, i, replaced, ok>>
Stutter == phase # "loop" /\ UNCHANGED <<le, lm, last, tiled, i, replaced, phase, ok>>

Next == (\E s \in 0..N : \E e \in 0..N : Found(s, e)) \/ NoMore \/ Error \/ Stutter

IndInv ==
    /\ ok
    /\ phase \in {"loop", "done", "err"}
    /\ le >= 0 /\ le <= N + 1 /\ lm >= -1 /\ lm <= N
    /\ last >= 0 /\ last <= N /\ i >= 0 /\ replaced >= 0 /\ replaced <= i
    /\ (K > 0 => replaced <= K)
    /\ (phase = "loop" => (replaced = i /\ tiled = last /\ last = (IF lm >= 0 THEN lm ELSE 0) /\ (le <= N => last <= le)))
    /\ (phase = "err" => tiled = last)
    /\ (phase = "done" => tiled = N)
Tiles == phase = "done" => tiled = N
IndInit == /\ le \in Int /\ lm \in Int /\ last \in Int /\ tiled \in Int /\ i \in Int /\ replaced \in Int
           /\ phase \in {"loop", "done", "err"} /\ ok \in BOOLEAN /\ IndInv
=============================================================================
