------------------------------ MODULE ApaSplit ------------------------------
(***************************************************************************)
(* Split and SplitN (lib.rs, Api!SplitAfter / SplitNNext) on top of the    *)
(* Matches iterator, over integers only, for Apalache: for EVERY text      *)
(* length N, every limit and every leaf behaviour allowed by the leaf      *)
(* contract (pos <= start <= end <= N) or ending in an error,              *)
(*   - every piece text[ns..s] is a valid slice (ns <= s: no slicing       *)
(*     panic),                                                             *)
(*   - the pieces and the matches between them TILE the text: after each   *)
(*     piece the text is covered exactly up to the end of the match that   *)
(*     ended the piece, and once the iterator has handed out its last      *)
(*     piece the whole text [0, N) is covered (C10),                       *)
(*   - splitn never yields more than `limit` pieces.                       *)
(* lim = -1 is plain split.  The inner retry of Matches::next (dropping an *)
(* empty match adjacent to the previous match) is its own silent step.     *)
(*   apalache-mc check --cinit=ConstInit --init=Init --inv=IndInv --length=0 ApaSplit.tla    *)
(*   apalache-mc check --cinit=ConstInit --init=IndInit --inv=IndInv --length=1 ApaSplit.tla *)
(***************************************************************************)
EXTENDS Integers

CONSTANTS
    \* @type: Int;
    N,
    \* @type: Int;
    Limit

VARIABLES
    \* @type: Int;
    le,
    \* @type: Int;
    lm,
    \* @type: Int;
    ns,
    \* @type: Int;
    tiled,
    \* @type: Int;
    lim,
    \* @type: Int;
    yielded,
    \* @type: Bool;
    ok

ConstInit == N \in Nat /\ Limit \in Int /\ Limit >= -1

Init == le = 0 /\ lm = -1 /\ ns = 0 /\ tiled = 0 /\ lim = Limit /\ yielded = 0 /\ ok = TRUE

\* SplitN::next with limit 0 (or after the remainder was handed out): nothing more
Finished == ns > N \/ lim = 0
\* the countdown allows a regular piece (plain split, or more than one piece left)
Regular == lim = -1 \/ lim > 1
Dec(l) == IF l = -1 THEN -1 ELSE l - 1

\* the inner search at le returned the span (s, e) obeying the leaf contract
Found(s, e) ==
    /\ ~Finished /\ Regular
    /\ le <= N /\ le <= s /\ s <= e /\ e <= N
    /\ IF s = e /\ e = lm
       THEN \* dropped by Matches::next, which searches again one character further: no piece, same countdown
            /\ le' = e + 1 /\ UNCHANGED <<lm, ns, tiled, lim, yielded, ok>>
       ELSE /\ le' = (IF s = e THEN e + 1 ELSE e) /\ lm' = e
            /\ ok' = (ok /\ ns <= s /\ tiled = ns)          \* the piece text[ns..s] is a slice and starts where the tiling stopped
            /\ tiled' = e /\ ns' = e /\ lim' = Dec(lim) /\ yielded' = yielded + 1

\* the inner iterator is exhausted (no match, or le beyond the text): the remainder is the last piece
NoMore ==
    /\ ~Finished /\ Regular
    /\ le' = (IF le <= N THEN le ELSE le)
    /\ ok' = (ok /\ ns <= N /\ tiled = ns)
    /\ tiled' = N /\ ns' = N + 1 /\ lim' = Dec(lim) /\ yielded' = yielded + 1
    /\ UNCHANGED lm

\* the search failed: Split hands the error out as an item, the Matches iterator is poisoned (le = N + 1), ns stays
Error ==
    /\ ~Finished /\ Regular /\ le <= N
    /\ le' = N + 1 /\ lim' = Dec(lim) /\ yielded' = yielded + 1
    /\ UNCHANGED <<lm, ns, tiled, ok>>

\* SplitN: the last allowed piece is the untouched remainder, without searching
LastAllowed ==
    /\ ~Finished /\ lim = 1
    /\ ok' = (ok /\ ns <= N /\ tiled = ns)
    /\ tiled' = N /\ ns' = N + 1 /\ lim' = 0 /\ yielded' = yielded + 1
    /\ UNCHANGED <<le, lm>>

Stutter == Finished /\ UNCHANGED <<le, lm, ns, tiled, lim, yielded, ok>>

Next == (\E s \in 0..N : \E e \in 0..N : Found(s, e)) \/ NoMore \/ Error \/ LastAllowed \/ Stutter

IndInv ==
    /\ ok
    /\ le >= 0 /\ le <= N + 1
    /\ lm >= -1 /\ lm <= N
    /\ lim >= -1 /\ yielded >= 0
    /\ (Limit >= 0 => (lim >= 0 /\ lim + yielded = Limit))          \* never more than `limit` pieces
    /\ (Limit = -1 => lim = -1)
    /\ ns >= 0 /\ ns <= N + 1
    /\ (ns <= N => (tiled = ns /\ ns = (IF lm >= 0 THEN lm ELSE 0) /\ (le <= N => ns <= le)))
    /\ (ns = N + 1 => tiled = N)                                       \* exhausted by handing out the remainder: the text is tiled
\* the conclusion C10 draws
Tiles == (ns = N + 1) => tiled = N
IndInit == le \in Int /\ lm \in Int /\ ns \in Int /\ tiled \in Int /\ lim \in Int /\ yielded \in Int /\ ok \in BOOLEAN /\ IndInv
=============================================================================
