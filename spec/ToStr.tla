-------------------------------- MODULE ToStr --------------------------------
(***************************************************************************)
(* Mirror of Expr::to_str (src/lib.rs): the text handed to the regex crate *)
(* for an easy expression (the whole pattern when nothing in it is hard,   *)
(* otherwise the pieces collected by compile.rs::DelegateBuilder).  Trees  *)
(* are Parse.tla trees, the result is a sequence of characters.            *)
(*   precedence 0 alternation may stand bare, 1 concatenation may, 2 a     *)
(*   repeat may, 3 only an atom                                            *)
(* Expressions containing a hard node make the code panic ("attempting to  *)
(* format hard expr"): Printable is exactly the domain.                    *)
(***************************************************************************)
EXTENDS Naturals, Integers, Sequences

TSSpecials == {"\\", ".", "+", "*", "?", "(", ")", "|", "[", "]", "{", "}", "^", "$", "#"}
TSQuoted(c) == IF c \in TSSpecials THEN <<"\\", c>> ELSE <<c>>
RECURSIVE TSQuotedAll(_, _)
TSQuotedAll(cs, j) == IF j > Len(cs) THEN <<>> ELSE TSQuoted(cs[j]) \o TSQuotedAll(cs, j + 1)
TSChars(str) == [i \in 1..Len(str) |-> SubSeq(str, i, i)]
TSDigit(n) == CASE n = 0 -> "0" [] n = 1 -> "1" [] n = 2 -> "2" [] n = 3 -> "3" [] n = 4 -> "4" [] n = 5 -> "5" [] n = 6 -> "6" [] n = 7 -> "7" [] n = 8 -> "8" [] n = 9 -> "9"
RECURSIVE TSUsize(_)
TSUsize(n) == IF n >= 10 THEN Append(TSUsize(n \div 10), TSDigit(n % 10)) ELSE <<TSDigit(n)>>      \* push_usize

HardAsserts == {"LeftWordBoundary", "RightWordBoundary", "WordBoundary", "NotWordBoundary"}
TSKids(e) == CASE e.k \in {"Concat", "Alt"} -> e.xs [] e.k \in {"Group", "Repeat"} -> <<e.x>> [] OTHER -> <<>>
RECURSIVE Printable(_), PrintableSeq(_, _)
PrintableSeq(xs, j) == j > Len(xs) \/ (Printable(xs[j]) /\ PrintableSeq(xs, j + 1))
Printable(e) == /\ e.k \in {"Empty", "Any", "Lit", "LitN", "Assert", "Concat", "Alt", "Group", "Repeat", "Delegate"}
                /\ (e.k = "Assert" => e.a \notin HardAsserts)
                /\ (e.k = "Repeat" => e.lo >= 0 /\ e.hi >= -1)          \* the model cannot print counts beyond 10^9 exactly
                /\ PrintableSeq(TSKids(e), 1)

RECURSIVE ToStr(_, _), ToStrAll(_, _, _, _)
ToStrAll(xs, j, prec, sep) == IF j > Len(xs) THEN <<>> ELSE (IF j > 1 THEN sep ELSE <<>>) \o ToStr(xs[j], prec) \o ToStrAll(xs, j + 1, prec, sep)
ToStr(e, prec) ==
   LET Wrap(cond, body) == IF cond THEN <<"(", "?", ":">> \o body \o <<")">> ELSE body
       CI(ci, body) == IF ci THEN <<"(", "?", "i", ":">> \o body \o <<")">> ELSE body
   IN
   CASE e.k = "Empty" -> <<>>
     [] e.k = "Any" -> IF e.nl THEN TSChars("(?s:.)") ELSE <<".">>
     [] e.k = "Lit" -> CI(e.ci, TSQuoted(e.c))
     [] e.k = "LitN" -> CI(e.ci, TSQuotedAll(e.c, 1))
     [] e.k = "Assert" -> (CASE e.a = "StartText" -> <<"^">> [] e.a = "EndText" -> <<"$">>
                            [] e.a = "StartLine" -> TSChars("(?m:^)") [] e.a = "EndLine" -> TSChars("(?m:$)")
                            [] e.a = "StartLineCrlf" -> TSChars("(?Rm:^)") [] e.a = "EndLineCrlf" -> TSChars("(?Rm:$)"))
     [] e.k = "Concat" -> Wrap(prec > 1, ToStrAll(e.xs, 1, 2, <<>>))
     [] e.k = "Alt" -> Wrap(prec > 0, ToStrAll(e.xs, 1, 1, <<"|">>))
     [] e.k = "Group" -> <<"(">> \o ToStr(e.x, 0) \o <<")">>
     [] e.k = "Repeat" ->
          Wrap(prec > 2, ToStr(e.x, 3)
                         \o (IF e.lo = 0 /\ e.hi = 1 THEN <<"?">> ELSE IF e.lo = 0 /\ e.hi = -1 THEN <<"*">> ELSE IF e.lo = 1 /\ e.hi = -1 THEN <<"+">>
                             ELSE <<"{">> \o TSUsize(e.lo) \o (IF e.lo # e.hi THEN <<",">> \o (IF e.hi # -1 THEN TSUsize(e.hi) ELSE <<>>) ELSE <<>>) \o <<"}">>)
                         \o (IF e.g THEN <<>> ELSE <<"?">>))
     [] e.k = "Delegate" -> CI(e.ci, e.inner)

\* every subtree in pre-order
RECURSIVE Subtrees(_), SubtreesSeq(_, _)
AllKids(e) == CASE e.k \in {"Concat", "Alt"} -> e.xs [] e.k \in {"Group", "Look", "Repeat", "Atomic"} -> <<e.x>> [] e.k = "Cond" -> <<e.c, e.y, e.n>> [] OTHER -> <<>>
SubtreesSeq(xs, j) == IF j > Len(xs) THEN <<>> ELSE Subtrees(xs[j]) \o SubtreesSeq(xs, j + 1)
Subtrees(e) == <<e>> \o SubtreesSeq(AllKids(e), 1)
=============================================================================
