------------------------------ MODULE TraceProg ------------------------------
(***************************************************************************)
(* "Spec drift" report: the program the REAL compiler produced for a       *)
(* pattern next to the one the mirror Compile.tla produces.  A difference  *)
(* is NEVER a verdict (a refactoring that emits different but equivalent   *)
(* code must stay quiet); it tells the maintainer of the specification     *)
(* that the mirror needs updating.  Compared: the sequence of opcodes and  *)
(* every numeric operand; literal strings; for Delegate the group range    *)
(* (the delegated sub-pattern is compared semantically elsewhere).         *)
(***************************************************************************)
EXTENDS Compile, TLC, Json, IOUtils
Rec == ndJsonDeserialize(IOEnv.VH_RECS)
Emit(tag, r) == PrintT("@@" \o tag \o " " \o ToJson(r))

NumFields == {"x", "y", "t", "slot", "lo", "hi", "next", "rep", "check", "n", "group", "sg", "eg", "a", "s"}
SameInsn(a, b) == /\ a.op = b.op
                  /\ \A f \in (DOMAIN a \cap DOMAIN b) \cap NumFields : a[f] = b[f]
SameProg(p, q) == Len(p) = Len(q) /\ \A j \in 1..Len(p) : SameInsn(p[j], q[j])

VARIABLES l, nsame, ndiff, nerr
vars == <<l, nsame, ndiff, nerr>>
Init == l = 1 /\ nsame = 0 /\ ndiff = 0 /\ nerr = 0
TStep == /\ l <= Len(Rec) /\ l' = l + 1
         /\ LET c == Rec[l]  m == Compile(IF "parsed" \in DOMAIN c THEN c.parsed ELSE c.ast, c.ng) IN
            IF m.err # "" THEN nerr' = nerr + 1 /\ UNCHANGED <<nsame, ndiff>>
            ELSE IF SameProg(m.p, c.prog) /\ m.ns = c.ns THEN nsame' = nsame + 1 /\ UNCHANGED <<ndiff, nerr>>
            ELSE /\ ndiff' = ndiff + 1 /\ UNCHANGED <<nsame, nerr>>
                 /\ Emit("DRIFT", [id |-> c.id, pat |-> c.pat, real |-> [j \in 1..Len(c.prog) |-> c.prog[j].op], model |-> [j \in 1..Len(m.p) |-> m.p[j].op],
                                   real_ns |-> c.ns, model_ns |-> m.ns])
Done == /\ l = Len(Rec) + 1 /\ l' = l + 1
        /\ Emit("STATS", [records |-> Len(Rec), same |-> nsame, different |-> ndiff, model_compile_error |-> nerr])
        /\ UNCHANGED <<nsame, ndiff, nerr>>
Spec == Init /\ [][TStep \/ Done]_vars
Consumed == TLCGet("stats").diameter = Len(Rec) + 2
=============================================================================
