----------------------------- MODULE TraceExpand -----------------------------
(***************************************************************************)
(* Trace validation of template-expansion records (C12).                   *)
(* First record of a file: the capture environments the real regexes       *)
(* produced for the fixtures -- must equal the specification's.            *)
(* Then one record per template with, for every fixture and dialect, the   *)
(* output of each public entry point, the result of check(), escape() and  *)
(* the expansion of the escaped template.  TLC recomputes all of them.     *)
(***************************************************************************)
EXTENDS ExpandFix, TLC, Json, IOUtils

Rec == ndJsonDeserialize(IOEnv.VH_RECS)
Emit(tag, r) == PrintT("@@" \o tag \o " " \o ToJson(r))

VARIABLES l, nok, nrej, nouts, nrefs
vars == <<l, nok, nrej, nouts, nrefs>>
Init == l = 1 /\ nok = 0 /\ nrej = 0 /\ nouts = 0 /\ nrefs = 0

\* names are compared as sets of pairs (the implementation's map has no order)
EnvEq(a, b) == a.n = b.n /\ a.txt = b.txt /\ {a.names[j] : j \in 1..Len(a.names)} = {b.names[j] : j \in 1..Len(b.names)}

ExpectedOut(tpl, o) ==
   LET env == Fixtures[o.f].env
       x == Expansion(tpl, env, o.d)
       esc == Escape(tpl, o.d)
   IN [e |-> IF o.d = "dollar" THEN <<x, <<"x">> \o x, x, x, x, x>> ELSE <<x, <<"x">> \o x, x, x, <<"NA">>, <<"NA">>>>,
       chk |-> Check(tpl, env, o.d), esc |-> esc, borrowed |-> EscapeBorrows(tpl, o.d), back |-> tpl]

OutOk(tpl, o) == LET x == ExpectedOut(tpl, o)
                 IN o.e = x.e /\ o.chk = x.chk /\ o.esc = x.esc /\ o.borrowed = x.borrowed /\ o.back = x.back
HasRef(tpl, d) == LET ss == Steps(tpl, 1, Dialect(d)) IN \E j \in 1..Len(ss) : ss[j].kind \in {"name", "num"}

Step ==
   /\ l <= Len(Rec) /\ l' = l + 1
   /\ LET c == Rec[l] IN
      IF c.e = "fixtures"
      THEN /\ UNCHANGED <<nouts, nrefs>>
           /\ IF Len(c.envs) = Len(Fixtures) /\ \A j \in 1..Len(Fixtures) : EnvEq(c.envs[j], Fixtures[j].env)
              THEN nok' = nok + 1 /\ UNCHANGED nrej
              ELSE nrej' = nrej + 1 /\ UNCHANGED nok /\ Emit("REJECT", [id |-> 0, what |-> "fixture environments differ", tpl |-> <<>>, got |-> c.envs])
      ELSE LET bad == {j \in 1..Len(c.outs) : ~OutOk(c.tpl, c.outs[j])}
           IN /\ nouts' = nouts + Len(c.outs)
              /\ nrefs' = nrefs + (IF HasRef(c.tpl, "dollar") \/ HasRef(c.tpl, "python") THEN 1 ELSE 0)
              /\ IF bad = {} THEN nok' = nok + 1 /\ UNCHANGED nrej
                 ELSE /\ nrej' = nrej + 1 /\ UNCHANGED nok
                      /\ LET j == CHOOSE j \in bad : TRUE
                         IN Emit("REJECT", [id |-> c.id, what |-> "expansion differs", tpl |-> c.tpl, got |-> c.outs[j],
                                            expected |-> ExpectedOut(c.tpl, c.outs[j])])
Done == /\ l = Len(Rec) + 1 /\ l' = l + 1
        /\ Emit("STATS", [records |-> Len(Rec), ok |-> nok, rejected |-> nrej, outputs |-> nouts, with_reference |-> nrefs])
        /\ UNCHANGED <<nok, nrej, nouts, nrefs>>
Next == Step \/ Done
Spec == Init /\ [][Next]_vars
Consumed == TLCGet("stats").diameter = Len(Rec) + 2
=============================================================================
