-------------------------------- MODULE Gram --------------------------------
(***************************************************************************)
(* The bounded pattern spaces, DEFINED here and EXPORTED by TLC (module    *)
(* MC_Export); the harness never invents patterns of these spaces.         *)
(*                                                                         *)
(*   P(n, g, open, prof)  all ASTs with exactly n nodes, given that g      *)
(*                        groups were opened to the left and `open` are    *)
(*                        the still-open ancestors; groups are numbered in *)
(*                        opening-parenthesis order; back-references and   *)
(*                        group conditions refer only to groups CLOSED     *)
(*                        earlier (restricted profiles) or to any group    *)
(*                        opened so far (unrestricted profile).            *)
(*   result elements: [a |-> ast, g |-> groups opened so far]              *)
(* prof is a record of the constructor sets in use, so that each property  *)
(* can have its own space from the same definition.                        *)
(***************************************************************************)
EXTENDS Ast, TLC

Repeatable(x) == x.k \notin ({"look", "lookb", "empty"} \cup AssertKinds)
LookBehindOK(x) == LET arms == IF x.k = "alt" THEN x.xs ELSE <<x>>
                   IN \A j \in 1..Len(arms) : FixLen(arms[j]) >= 0

\* A condition that is nothing but a back-reference, however it is bracketed -- (?(\1)..), (?((?:\1))..) -- is read
\* by the parser as the group test (?(1)..); such conditions are therefore written as bex nodes only.
CondExprOK(c) == c.k # "bref"
RefTargets(g, open, prof) == IF prof.unrestricted THEN 1..g ELSE (1..g) \ open

Leaves(g, open, prof) ==
   prof.atoms
   \cup (IF prof.brefs THEN {Bref(m) : m \in RefTargets(g, open, prof)} ELSE {})
   \cup (IF prof.bexs THEN {Bex(m) : m \in RefTargets(g, open, prof)} ELSE {})

Unary(x, prof) ==
   \* ({0} is only put around group-free bodies: a capture group under {0} in a wholly delegated pattern is finding F15)
   (IF Repeatable(x) THEN {Rep(x, q[1], q[2], q[3]) : q \in {qq \in prof.quants : qq[2] # 0 \/ ~HasKind(x, {"grp"})}} ELSE {})
   \cup (IF prof.looks THEN {Look(x), NLook(x)} ELSE {})
   \cup (IF prof.lookbs /\ (LookBehindOK(x) \/ ("lbany" \in DOMAIN prof /\ prof.lbany)) THEN {LookB(x), NLookB(x)} ELSE {})
   \cup (IF prof.atomics THEN {Atom(x)} ELSE {})

RECURSIVE P(_, _, _, _)
P(n, g, open, prof) ==
   IF n <= 0 THEN {}
   ELSE IF n = 1 THEN {[a |-> x, g |-> g] : x \in Leaves(g, open, prof)}
   ELSE \* unary constructors
        UNION { {[a |-> u, g |-> r.g] : u \in Unary(r.a, prof)} : r \in P(n - 1, g, open, prof) }
        \cup (IF prof.groups
              THEN {[a |-> Grp(g + 1, r.a), g |-> r.g] : r \in P(n - 1, g + 1, open \cup {g + 1}, prof)}
              ELSE {})
        \* binary constructors: children are numbered left to right
        \cup UNION { UNION { { [a |-> Cat(<<r.a, s.a>>), g |-> s.g] : s \in P(n - 1 - i, r.g, open, prof) }
                             : r \in P(i, g, open, prof) } : i \in 1..(n - 2) }
        \cup UNION { UNION { { [a |-> Alt(<<r.a, s.a>>), g |-> s.g] : s \in P(n - 1 - i, r.g, open, prof) }
                             : r \in P(i, g, open, prof) } : i \in 1..(n - 2) }
        \* conditional with an explicit condition expression: (?(c)y|n), n may be empty (costs no node)
        \cup (IF prof.conds
              THEN UNION { UNION { UNION { { [a |-> Cond(c.a, y.a, z.a), g |-> z.g]
                                             : z \in (IF n - 1 - i - k = 0 THEN {[a |-> Empty, g |-> y.g]}
                                                      ELSE P(n - 1 - i - k, y.g, open, prof)) }
                                           : y \in P(k, c.g, open, prof) } : c \in {cc \in P(i, g, open, prof) : CondExprOK(cc.a)} }
                           : <<i, k>> \in {<<i, k>> \in (1..(n - 2)) \X (1..(n - 2)) : i + k <= n - 1} }
              ELSE {})

PatsOfSize(n, prof) == {[ast |-> r.a, ng |-> r.g] : r \in P(n, 0, {}, prof)}
RECURSIVE PatsUpTo(_, _)
PatsUpTo(n, prof) == IF n = 0 THEN {} ELSE PatsUpTo(n - 1, prof) \cup PatsOfSize(n, prof)

(***************************************************************************)
(* Contexts x Fillers: one-hole hard contexts around easy/hard fillers.    *)
(* They reach delegation boundaries, loop lowerings and capture handling   *)
(* that need more nodes than the exhaustive bound.  Groups carry symbolic  *)
(* ids here (context 101.., filler 201..) and Renumber assigns the real    *)
(* numbers in opening-parenthesis order.                                   *)
(***************************************************************************)
RECURSIVE GroupOrder(_), GroupOrderSeq(_, _)
GroupOrderSeq(xs, j) == IF j > Len(xs) THEN <<>> ELSE GroupOrder(xs[j]) \o GroupOrderSeq(xs, j + 1)
GroupOrder(e) == IF e.k = "grp" THEN <<e.n>> \o GroupOrder(e.x) ELSE GroupOrderSeq(Kids(e), 1)
IndexOf(seq, v) == CHOOSE j \in 1..Len(seq) : seq[j] = v
RECURSIVE Renum(_, _), RenumSeq(_, _, _)
RenumSeq(xs, ord, j) == IF j > Len(xs) THEN <<>> ELSE <<Renum(xs[j], ord)>> \o RenumSeq(xs, ord, j + 1)
Renum(e, ord) ==
   CASE e.k = "grp" -> Grp(IndexOf(ord, e.n), Renum(e.x, ord))
     [] e.k \in {"bref", "bex"} -> [e EXCEPT !.n = IndexOf(ord, e.n)]
     [] e.k \in {"cat", "alt"} -> [e EXCEPT !.xs = RenumSeq(e.xs, ord, 1)]
     [] e.k \in {"rep", "atom", "look", "lookb"} -> [e EXCEPT !.x = Renum(e.x, ord)]
     [] e.k = "cond" -> Cond(Renum(e.c, ord), Renum(e.y, ord), Renum(e.n, ord))
     [] OTHER -> e
Renumber(e) == Renum(e, GroupOrder(e))
\* second copy of a sub-pattern: its symbolic group ids are shifted so that the copies stay distinct
RECURSIVE Shift(_, _), ShiftSeq(_, _, _)
ShiftSeq(xs, d, j) == IF j > Len(xs) THEN <<>> ELSE <<Shift(xs[j], d)>> \o ShiftSeq(xs, d, j + 1)
Shift(e, d) ==
   CASE e.k = "grp" -> Grp(e.n + d, Shift(e.x, d))
     [] e.k \in {"bref", "bex"} -> [e EXCEPT !.n = e.n + d]
     [] e.k \in {"cat", "alt"} -> [e EXCEPT !.xs = ShiftSeq(e.xs, d, 1)]
     [] e.k \in {"rep", "atom", "look", "lookb"} -> [e EXCEPT !.x = Shift(e.x, d)]
     [] e.k = "cond" -> Cond(Shift(e.c, d), Shift(e.y, d), Shift(e.n, d))
     [] OTHER -> e

La == Lit("a")  Lb == Lit("b")  Lc == Lit("c")  LE == Lit("E")
LazyStar(x) == Rep(x, 0, -1, FALSE)
E0 == Look(Empty)               \* (?=) : always true, forces the VM

Fillers == <<
   La, Cat(<<La, Lb>>), Star(La), Plus(La), Opt(La), LazyStar(La), Rep(La, 1, -1, FALSE), Rep(La, 0, 1, FALSE),
   Alt(<<La, Cat(<<La, Lb>>)>>), Alt(<<Cat(<<La, Lb>>), La>>), Alt(<<La, Lb>>), Rep(Alt(<<La, Lb>>), 1, -1, FALSE),
   Alt(<<Grp(201, La), Lb>>), Rep(La, 1, 2, TRUE), Rep(La, 2, 2, TRUE), Grp(201, La),
   Cat(<<Grp(201, La), Grp(202, Lb)>>), Cat(<<Grp(201, Alt(<<La, Cat(<<La, Lb>>)>>)), Opt(Grp(202, Alt(<<Lc, Cat(<<Lb, Lc>>)>>)))>>),
   AnyC, Star(AnyC), Class(<<"a", "b">>), Plus(Class(<<"a", "b">>)), LE, Star(LE), Cat(<<La, LE>>),
   Alt(<<Lb, Empty>>), Alt(<<Empty, Lb>>), LazyStar(Grp(201, La)), Star(Alt(<<La, Lb>>)),
   Cat(<<Alt(<<La, Cat(<<La, Lb>>)>>), Star(Lc)>>), Cat(<<Asrt("bol"), La>>), Cat(<<La, Asrt("eol")>>),
   Cat(<<Asrt("wb"), La>>), Cat(<<Grp(201, La), Bref(201)>>), Grp(201, Alt(<<La, Cat(<<La, Lb>>)>>)),
   Plus(Grp(201, Alt(<<La, Lb>>))), Cat(<<Star(La), La>>), Rep(Alt(<<La, Cat(<<La, La>>)>>), 1, 2, TRUE),
   Atom(Alt(<<La, Cat(<<La, Lb>>)>>)), Cat(<<Opt(Grp(201, La)), Lb>>), Star(Cat(<<La, Opt(Lb)>>)),
   Alt(<<Cat(<<La, Lb>>), Cat(<<La, Lb, Lc>>)>>), NClass(<<"a">>), Cat(<<Lb, Star(NClass(<<"a">>))>>),
   Look(La), NLook(La), LookB(La), Rep(Grp(201, Opt(La)), 2, 2, TRUE), Keep, Cat(<<La, Keep, Lb>>),
   Alt(<<Grp(201, La), Grp(202, Lb)>>), Rep(Cat(<<La, Lb>>), 0, 1, TRUE),
   Rep(Atom(La), 0, 0, TRUE), Rep(Cat(<<La, Look(Lb)>>), 0, 0, TRUE), Rep(Lb, 0, 0, TRUE),
   Cat(<<Lit("U"), Lit("Q")>>), Alt(<<Lit("K"), Lit("T"), La>>), LitI("E"), Cat(<<LitI("E"), Lb>>),          \* characters whose code points exercise the hex / unicode escapes (5f, 1f600, e01, 3042)
   Rep(La, 1, 2, FALSE), Rep(Cat(<<La, Look(AnyC)>>), 1, 2, FALSE), Rep(Alt(<<La, Lb>>), 0, 2, FALSE), Opt(Plus(La)), Opt(Star(Cat(<<La, Lb>>)))
>>

NContexts == 44
Ctx(i, H) ==
   CASE i = 1  -> H
     [] i = 2  -> Cat(<<E0, H>>)
     [] i = 3  -> Cat(<<H, E0>>)
     [] i = 4  -> Cat(<<Grp(101, H), Bref(101)>>)
     [] i = 5  -> Cat(<<Atom(H), La>>)
     [] i = 6  -> Cat(<<H, NLook(Lb)>>)
     [] i = 7  -> Rep(Cat(<<H, E0>>), 2, 2, TRUE)
     [] i = 8  -> Cat(<<LookB(H), Lb>>)
     [] i = 9  -> Cat(<<Opt(Grp(101, La)), Cond(Bex(101), H, Lb)>>)
     [] i = 10 -> Cat(<<Grp(101, H), Lc, Bref(101)>>)
     [] i = 11 -> Star(Cat(<<H, E0>>))
     [] i = 12 -> Cat(<<H, Asrt("wb")>>)
     [] i = 13 -> Cat(<<Asrt("wb"), H>>)
     [] i = 14 -> Cat(<<Grp(101, Alt(<<H, La>>)), Bref(101)>>)
     [] i = 15 -> Cat(<<Look(Cat(<<Grp(101, H), Star(Lc)>>)), Bref(101), Lc>>)
     [] i = 16 -> Cat(<<Look(H), La>>)
     [] i = 17 -> Cat(<<NLook(H), AnyC>>)
     [] i = 18 -> Cat(<<H, Keep, La>>)
     [] i = 19 -> Cat(<<LazyStar(La), H, E0>>)
     [] i = 20 -> Cat(<<Atom(Cat(<<H, E0>>)), Lb>>)
     [] i = 21 -> Cat(<<Grp(101, La), H, Bref(101)>>)
     [] i = 22 -> Cond(Look(H), La, Lb)
     [] i = 23 -> Cat(<<Plus(Grp(101, H)), Bref(101)>>)
     [] i = 24 -> Cat(<<Grp(101, H), Look(Bref(101))>>)
     [] i = 25 -> Cat(<<LookB(La), H, E0>>)
     [] i = 26 -> Cat(<<H, LookB(La)>>)
     [] i = 27 -> Cat(<<NLookB(Lb), H, E0>>)
     [] i = 28 -> Cat(<<Grp(101, H), LazyStar(AnyC), Bref(101)>>)
     [] i = 29 -> Cat(<<H, Look(Asrt("eol"))>>)
     [] i = 30 -> Cat(<<Star(AnyC), H, E0>>)
     [] i = 31 -> Cat(<<Rep(Grp(101, H), 2, 2, TRUE), Bref(101)>>)
     [] i = 32 -> Cond(H, La, Lb)
     [] i = 33 -> Cat(<<Atom(Star(H)), La>>)
     [] i = 34 -> Cat(<<Rep(H, 0, 1, FALSE), Lb, E0>>)
     [] i = 35 -> Cat(<<LookB(Cat(<<Grp(101, H), Lb>>)), Bref(101)>>)
     [] i = 36 -> Alt(<<Cat(<<H, Lc, E0>>), Cat(<<Shift(H, 100), Lb>>)>>)
     \* a back-reference to a group that sits in a LATER alternative of the same length as an earlier one (the group must stay re-enterable)
     [] i = 37 -> Cat(<<Alt(<<La, Grp(101, H)>>), Bref(101)>>)
     \* word-boundary neighbours (plain syntax, yet run by the VM): also the C04 contexts
     [] i = 38 -> Cat(<<H, Asrt("nwb")>>)
     [] i = 39 -> Cat(<<Asrt("nwb"), H>>)
     [] i = 40 -> Cat(<<Grp(101, H), Asrt("nwb")>>)
     [] i = 41 -> Cat(<<Asrt("wb"), H, Lb>>)
     \* a counted repeat (lo >= 2) of a hard body with the filler as its tail, DIRECTLY inside an atomic group / look-ahead:
     \* a later iteration must be able to make an earlier iteration's tail give back
     [] i = 42 -> Atom(Rep(Cat(<<Look(La), H>>), 2, 2, TRUE))
     [] i = 43 -> Cat(<<Look(Rep(Cat(<<Look(La), H>>), 2, 2, TRUE)), La>>)
     [] i = 44 -> Cat(<<NLook(Rep(Cat(<<Look(La), H>>), 2, 3, TRUE)), AnyC>>)

\* a context/filler pair is in the space when the result is well-formed for the parser/compiler
CtxOK(e) ==
   LET RECURSIVE Ok(_), OkSeq(_, _)
       OkSeq(xs, j) == j > Len(xs) \/ (Ok(xs[j]) /\ OkSeq(xs, j + 1))
       Ok(x) == /\ (x.k = "rep" => Repeatable(x.x))
                /\ (x.k = "lookb" => LookBehindOK(x.x))
                /\ OkSeq(Kids(x), 1)
   IN Ok(e)

CtxFill == { [c |-> i, f |-> j] : i \in 1..NContexts, j \in 1..Len(Fillers) }
\* two fillers in one context never share symbolic ids: the second filler's ids are shifted
CtxFillPats ==
   LET S == { Ctx(p.c, Fillers[p.f]) : p \in CtxFill }
       W == { e \in S : CtxOK(e) }
   IN { LET r == Renumber(e) IN [ast |-> r, ng |-> Len(GroupOrder(e))] : e \in W }

\* C04: contexts x fillers within the syntax shared with the regex crate
PlainContexts == {1, 12, 13, 38, 39, 40, 41}
PlainOK(e) == ~HasKind(e, {"look", "lookb", "atom", "bref", "bex", "cond", "keep", "cont", "lwb", "rwb", "eolz"})
PlainCtxFillPats ==
   LET S == { Ctx(i, Fillers[j]) : i \in PlainContexts, j \in 1..Len(Fillers) }
       W == { e \in S : CtxOK(e) /\ PlainOK(e) }
   IN { LET r == Renumber(e) IN [ast |-> r, ng |-> Len(GroupOrder(e))] : e \in W }

(***************************************************************************)
(* C03: injection of the always-true empty look-ahead (?=) before or after *)
(* any sub-expression.  Injections(e) = every AST obtained from e by ONE   *)
(* injection.  It never changes the meaning (lemma checked by TLC in       *)
(* TraceRows with VH_LEMMA) but changes what the compiler delegates.       *)
(***************************************************************************)
RECURSIVE Injections(_), InjectKid(_, _)
ReplaceKid(e, j, x) ==
   CASE e.k \in {"cat", "alt"} -> [e EXCEPT !.xs[j] = x]
     [] e.k \in {"rep", "grp", "atom", "look", "lookb"} -> [e EXCEPT !.x = x]
     [] e.k = "cond" -> IF j = 1 THEN [e EXCEPT !.c = x] ELSE IF j = 2 THEN [e EXCEPT !.y = x] ELSE [e EXCEPT !.n = x]
InjectKid(e, j) == { ReplaceKid(e, j, x) : x \in Injections(Kids(e)[j]) }
Injections(e) ==
   {Cat(<<E0, e>>), Cat(<<e, E0>>)} \cup UNION { InjectKid(e, j) : j \in 1..Len(Kids(e)) }
\* an injection directly under a repeat must keep the operand repeatable; (?=) inside a condition that
\* is a bare group test turns it into a general condition, which is fine
InjectOK(e) == CtxOK(e)

(***************************************************************************)
(* C15: conditionals at every nesting position.                            *)
(***************************************************************************)
CondFillers == <<
   Cond(Lb, Lc, Empty), Cond(Lb, Lc, La), Cond(Look(La), La, Lb), Cond(NLook(La), Lb, La),
   Cond(Alt(<<La, Cat(<<La, Lb>>)>>), Lc, Lb), Cond(Star(La), Lb, Lc), Cond(Cond(Lb, La, Empty), Lb, La),
   Cond(Lb, Empty, Lc), Cond(Cat(<<La, Lb>>), Lc, Cat(<<La, Lc>>)), Cond(La, Cond(Lb, Lc, La), Lb),
   Cond(La, Lb, Cond(Lb, Lc, Empty)), Cond(LookB(La), Lb, Lc), Cond(Grp(201, La), Bref(201), Lb),
   \* branches that can match in several ways: what follows must be able to make them give back / try the next way
   Cond(La, Star(Lb), Lc), Cond(La, Alt(<<Lb, Cat(<<Lb, Lc>>)>>), Lc), Cond(La, Lc, Star(Lb)), Cond(Look(La), Star(AnyC), Lb),
   Cond(La, Rep(Lb, 0, 1, TRUE), Lc), Cond(Lc, Lc, Alt(<<La, Cat(<<La, Lb>>)>>)),
   \* conditions that fail at once (false path taken while alternatives of the context are still alive)
   Cond(Lc, Lc, Empty), Cond(Lc, Lb, La), Cond(NLook(Empty), La, Empty),
   \* capture groups in the condition AND in the branches (numbering follows the opening parentheses: condition, yes, no)
   Cond(Grp(201, La), Grp(202, Lb), Grp(203, Lc)), Cond(Look(Grp(201, La)), Cat(<<Grp(202, AnyC), Lb>>), Lc),
   Cond(Grp(201, La), Cat(<<Grp(202, Lb), Bref(201)>>), Lc), Cond(Grp(201, Alt(<<La, Lb>>)), Lc, Grp(202, Cat(<<AnyC, Lc>>)))
>>
\* fillers that test group 101, which the context opens (optionally) to the left
CondFillersG == <<
   Cond(Bex(101), La, Lb), Bex(101), Cond(Bex(101), Empty, Lb), Cond(Bex(101), Lb, Empty),
   Cond(Bex(101), Cond(Lb, Lc, Empty), La), Cond(Cond(Bex(101), La, Empty), Lb, Lc), Cond(Bex(101), Bref(101), Lc),
   Cond(Bex(101), Alt(<<Lb, Cat(<<Lb, Lc>>)>>), Lc), Cond(Bex(101), Lc, Star(Lb)), Cond(Bex(101), Star(Lb), Lc), Cond(Bex(101), Lc, Empty)
>>
NCondContexts == 20
CondCtx(i, H) ==
   CASE i = 1  -> H
     [] i = 2  -> Cat(<<H, La>>)
     [] i = 3  -> Cat(<<Atom(Cat(<<LazyStar(La), H>>)), La, Lb>>)
     [] i = 4  -> Cond(H, Lb, La)
     [] i = 5  -> Rep(Cat(<<H, AnyC>>), 1, 2, TRUE)
     [] i = 6  -> Cat(<<Look(H), AnyC>>)
     [] i = 7  -> Cat(<<NLook(H), AnyC>>)
     [] i = 8  -> Cat(<<Atom(H), Lb>>)
     [] i = 9  -> Cat(<<Atom(Cat(<<H, E0>>)), La>>)
     [] i = 10 -> Alt(<<Cat(<<H, Lb>>), La>>)
     [] i = 11 -> Cond(Look(H), La, Lb)
     [] i = 12 -> Cat(<<Atom(Cat(<<LazyStar(Lb), H>>)), Lb>>)
     [] i = 13 -> Cat(<<Plus(Cat(<<Opt(La), H>>)), Lc>>)
     [] i = 14 -> Cat(<<Star(AnyC), H, E0>>)
     [] i = 15 -> Cat(<<H, Lb>>)
     [] i = 16 -> Cat(<<H, Lc, Asrt("eol")>>)
     [] i = 17 -> Cat(<<Grp(102, H), Lb, Lc>>)
     \* a conditional inside a (hard, hence atomic) look-around, after an alternation that is still alive; what follows the look-around
     \* depends on which alternative it committed to
     [] i = 18 -> Cat(<<Look(Cat(<<Grp(102, Alt(<<La, Cat(<<La, Lb>>)>>)), H>>)), Bref(102), Asrt("eol")>>)
     [] i = 19 -> Cat(<<Atom(Cat(<<Grp(102, Alt(<<La, Cat(<<La, Lb>>)>>)), H>>)), Bref(102)>>)
     [] i = 20 -> Cat(<<LookB(Cat(<<Grp(102, Alt(<<La, Lb>>)), H>>)), Bref(102)>>)
CondCtxFillPats ==
   LET S1 == { CondCtx(i, CondFillers[j]) : i \in 1..NCondContexts, j \in 1..Len(CondFillers) }
       S2 == { Cat(<<Opt(Grp(101, La)), CondCtx(i, CondFillersG[j])>>) : i \in 1..NCondContexts, j \in 1..Len(CondFillersG) }
       S3 == { Cat(<<Grp(101, Opt(La)), CondCtx(i, CondFillersG[j])>>) : i \in 1..NCondContexts, j \in 1..Len(CondFillersG) }
       \* the tested group sits in a constant-size alternation that can match the same text with and without it: the engine must be able
       \* to come back into the alternation when the branch chosen by the test fails
       S4 == { Cat(<<Alt(<<Grp(101, La), La>>), CondCtx(i, CondFillersG[j])>>) : i \in {1, 2, 3, 4, 5, 6, 15, 16, 17}, j \in 1..Len(CondFillersG) }
       S5 == { Cat(<<Alt(<<Grp(101, La), AnyC>>), CondCtx(i, CondFillersG[j])>>) : i \in {1, 2, 15, 16}, j \in 1..Len(CondFillersG) }
       W == { e \in S1 \cup S2 \cup S3 \cup S4 \cup S5 : CtxOK(e) }
   IN { LET r == Renumber(e) IN [ast |-> r, ng |-> Len(GroupOrder(e))] : e \in W }

Quants8 == {<<0, -1, TRUE>>, <<0, -1, FALSE>>, <<1, -1, TRUE>>, <<0, 1, TRUE>>, <<0, 1, FALSE>>,
            <<1, 2, TRUE>>, <<2, 2, TRUE>>, <<2, -1, FALSE>>, <<1, 2, FALSE>>, <<0, 0, TRUE>>, <<0, 2, TRUE>>}      \* incl. a lazy BOUNDED repeat (own VM instruction RepeatNg)
Quants4 == {<<0, -1, TRUE>>, <<1, -1, FALSE>>, <<0, 1, TRUE>>, <<1, 2, TRUE>>}

\* C01/C02/C03 space: every construct of C01's statement; references only to groups closed earlier
ProfCore ==
   [atoms |-> {Lit("a"), Lit("b"), Lit("E"), AnyC, Class(<<"a", "b">>), NClass(<<"a">>),
               Asrt("bol"), Asrt("eol"), Asrt("wb"), Keep},
    quants |-> Quants8, looks |-> TRUE, lookbs |-> TRUE, atomics |-> TRUE, groups |-> TRUE,
    brefs |-> TRUE, bexs |-> FALSE, conds |-> FALSE, unrestricted |-> FALSE]

\* C15 space: both conditional forms everywhere
ProfCond ==
   [atoms |-> {Lit("a"), Lit("b"), AnyC, Asrt("eol")},
    quants |-> Quants4, looks |-> TRUE, lookbs |-> FALSE, atomics |-> TRUE, groups |-> TRUE,
    brefs |-> TRUE, bexs |-> TRUE, conds |-> TRUE, unrestricted |-> FALSE]

\* C05/C07/C09/C16 space: no scoping of references, \G and \K anywhere
ProfWild ==
   [atoms |-> {Lit("a"), Lit("E"), AnyC, Asrt("wb"), Keep, Cont, Empty},
    quants |-> Quants4, looks |-> TRUE, lookbs |-> TRUE, atomics |-> TRUE, groups |-> TRUE,
    brefs |-> TRUE, bexs |-> TRUE, conds |-> TRUE, unrestricted |-> TRUE]

\* C04 space: syntax shared with the regex crate
ProfPlain ==
   [atoms |-> {Lit("a"), Lit("b"), Lit("E"), LitI("a"), AnyC, AnyNL, Class(<<"a", "b">>), NClass(<<"a">>),
               Asrt("bol"), Asrt("eol"), Asrt("mbol"), Asrt("meol"), Asrt("wb"), Asrt("nwb")},
    quants |-> Quants8 \ {<<2, -1, FALSE>>}, looks |-> FALSE, lookbs |-> FALSE, atomics |-> FALSE, groups |-> TRUE,
    brefs |-> FALSE, bexs |-> FALSE, conds |-> FALSE, unrestricted |-> FALSE]

\* C08/C10/C11 space: the core atoms plus \G
ProfIter ==
   [atoms |-> {Lit("a"), Lit("b"), Lit("E"), AnyC, Class(<<"a", "b">>), Asrt("bol"), Asrt("eol"), Asrt("wb"), Keep, Cont},
    quants |-> Quants4, looks |-> TRUE, lookbs |-> TRUE, atomics |-> TRUE, groups |-> TRUE,
    brefs |-> TRUE, bexs |-> FALSE, conds |-> FALSE, unrestricted |-> FALSE]

\* C14 space: mixed-case alphabet, (?i:..) and (?-i:..) nodes
ProfCase ==
   [atoms |-> {Lit("a"), Lit("B"), LitI("b"), LitCS("a"), LitI("E"), Class(<<"a", "B">>), NClass(<<"a">>), AnyC, Asrt("wb")},     \* LitI("E"): a cased NON-ASCII character
    quants |-> Quants4, looks |-> TRUE, lookbs |-> FALSE, atomics |-> TRUE, groups |-> TRUE,
    brefs |-> TRUE, bexs |-> FALSE, conds |-> FALSE, unrestricted |-> FALSE]

\* C13 space: look-behinds over ANY body (so that the compile-time decision is exercised), conditionals
ProfLB ==
   [atoms |-> {Lit("a"), Lit("E"), AnyC, Class(<<"a", "b">>)},
    quants |-> {<<0, 1, TRUE>>, <<0, -1, TRUE>>, <<2, 2, TRUE>>, <<1, 2, FALSE>>}, looks |-> FALSE, lookbs |-> TRUE, lbany |-> TRUE,
    atomics |-> FALSE, groups |-> TRUE, brefs |-> FALSE, bexs |-> TRUE, conds |-> TRUE, unrestricted |-> FALSE]

\* hand-written shapes of the unrestricted grammar: self/forward references, loops around look-arounds that capture,
\* \K / \G in odd places, references into look-behinds
WildShapes == <<
   Plus(Grp(1, Cat(<<Bref(1), La>>))),                                                     \* (\1a)+
   Plus(Cat(<<Look(Grp(1, Cat(<<Opt(Bref(1)), La>>))), La, La, La>>)),                      \* (?:(?=(\1?a))aaa)+
   Star(Grp(1, Cat(<<La, Opt(Bref(1))>>))),                                                \* (a\1?)*
   Plus(Alt(<<Grp(1, La), Cat(<<Bref(1), Lb>>)>>)),                                         \* (?:(a)|\1b)+
   Cat(<<LookB(Cat(<<Keep, La>>)), Lb>>),                                                   \* (?<=\Ka)b
   Alt(<<La, Cat(<<LookB(Cat(<<Keep, La>>)), Lb>>)>>),                                      \* a|(?<=\Ka)b
   Plus(Grp(1, Cat(<<LE, Opt(Bref(1))>>))),                                                \* (E\1?)+   multi-byte
   Cat(<<Star(Grp(1, Alt(<<Cat(<<Bref(1), LE>>), La>>))), Lb>>),                            \* (\1E|a)*b
   Cat(<<Cont, Star(La)>>), Cat(<<Star(La), Cont>>), Plus(Cat(<<Cont, La>>)),                 \* \Ga* a*\G (?:\Ga)+
   Cat(<<Plus(Grp(1, Cat(<<Look(Cat(<<Bref(1), Lb>>)), AnyC>>))), Keep>>),                  \* ((?=\1b).)+\K
   Cat(<<Grp(1, Opt(La)), Plus(Cat(<<Look(Grp(2, Cat(<<Bref(1), Bref(2)>>))), AnyC>>))>>),   \* (a?)(?:(?=(\1\2)).)+
   Rep(Grp(1, Cat(<<Opt(Bref(1)), LE, Keep>>)), 2, 3, TRUE),                                \* (\1?E\K){2,3}
   Cat(<<Star(Cat(<<Look(Grp(1, Star(AnyC))), AnyC>>)), Bref(1)>>),                          \* (?:(?=(.*)).)*\1
   Cat(<<Grp(1, Star(AnyC)), LookB(Cat(<<Bref(1)>>))>>),                                     \* (.*)(?<=\1)  (not constant: rejected)
   \* loops whose body can match empty only through an alternative that is neither the first nor the last (the empty-iteration guard
   \* is chosen from the body's minimum size)
   Cat(<<Star(Alt(<<Cat(<<La, Look(Lb)>>), Empty, Lc>>)), Lb>>),                             \* (?:a(?=b)||c)*b
   Cat(<<Rep(Alt(<<Cat(<<La, Look(Lb)>>), Empty, Lc>>), 0, -1, FALSE), Lb>>),                \* (?:a(?=b)||c)*?b
   Cat(<<Plus(Alt(<<Cat(<<La, Look(Lb)>>), Look(Empty), Lc, LE>>)), AnyC>>),                 \* (?:a(?=b)|(?=)|c|E)+.
   Cat(<<Grp(1, La), Rep(Alt(<<Cat(<<Lb, Bref(1)>>), Lc, NLookB(Lb), LE>>), 2, -1, TRUE), Lb>>),  \* (a)(?:b\1|c|(?<!b)|E){2,}b
   \* \K inside a look-ahead: the recorded start lies BEYOND the end of the match
   Cat(<<La, Look(Cat(<<Lb, Keep, Lc>>))>>),                                                 \* a(?=b\Kc)
   Look(Cat(<<La, Keep>>)),                                                                  \* (?=a\K)
   Cat(<<Grp(1, LE), Look(Cat(<<AnyC, Keep>>))>>),                                            \* (E)(?=.\K)
   Alt(<<Cat(<<LookB(Cat(<<Keep, La>>)), Lb>>), Empty>>)                                      \* (?<=\Ka)b|
>>
WildShapePats == { [ast |-> WildShapes[j], ng |-> Opened(WildShapes[j])] : j \in 1..Len(WildShapes) }

Prof(name) == CASE name = "core" -> ProfCore [] name = "lb" -> ProfLB [] name = "case" -> ProfCase [] name = "iter" -> ProfIter [] name = "cond" -> ProfCond
                [] name = "wild" -> ProfWild [] name = "plain" -> ProfPlain
=============================================================================
