SPECIFICATION Spec
INVARIANT Accepted
INVARIANT SameMeaning
INVARIANT SameGroupCount
INVARIANT NamesRight
CHECK_DEADLOCK FALSE
