-------------------------------- MODULE Spell --------------------------------
(***************************************************************************)
(* Generative model of the concrete syntax (C19): Spell(ast, style) is a   *)
(* sequence of string fragments whose concatenation must parse to ast.     *)
(* A style selects, for every construct that has documented-equivalent     *)
(* spellings, which one is written:                                        *)
(*   x     free-spacing: "(?x)" in front, blanks/newlines between pieces,  *)
(*         a "# comment" line after alternation bars                       *)
(*   cmt   a "(?#...)" comment between concatenated pieces                 *)
(*   names 0 numbered groups and \N ; 1 (?<name>..) and \k<name> ;         *)
(*         2 (?P<name>..) and (?P=name) ; 3 numbered groups, relative      *)
(*         back-references \k<-n>                                          *)
(*   inl   (?i:x) written as (?:(?i)x)   (inline flag in a non-capturing   *)
(*         scope; inline flags inside CAPTURING groups are finding F10)    *)
(*   hex   0 literal characters ; 1 \xHH ; 2 \x{H..} ; 3 \uHHHH ;          *)
(*         4 \x{h..} and 5 \u{h..} with LOWER-case digits and the full    *)
(*         code point (so also for characters beyond U+00FF)               *)
(*   poss  atomic group around a repeat written as possessive quantifier   *)
(*   anch  ^ $ (outside multi-line mode) written \A \z                     *)
(* Fragments starting with "@" are Text tokens written as the raw          *)
(* character (e.g. "@E" = e-acute); everything else is literal ASCII.      *)
(* SameTree(style): the spelling is DEFINED to give the same expression    *)
(* tree as the plain one (all styles here are).                            *)
(***************************************************************************)
EXTENDS Ast, Text, TLC

Plain == [x |-> FALSE, cmt |-> FALSE, names |-> 0, inl |-> FALSE, hex |-> 0, poss |-> FALSE, anch |-> FALSE]
Styles == << Plain,
             [Plain EXCEPT !.x = TRUE], [Plain EXCEPT !.cmt = TRUE], [Plain EXCEPT !.names = 1], [Plain EXCEPT !.names = 2],
             [Plain EXCEPT !.names = 3], [Plain EXCEPT !.inl = TRUE], [Plain EXCEPT !.hex = 1], [Plain EXCEPT !.hex = 2],
             [Plain EXCEPT !.hex = 3], [Plain EXCEPT !.poss = TRUE], [Plain EXCEPT !.anch = TRUE],
             [Plain EXCEPT !.hex = 4], [Plain EXCEPT !.hex = 5],
             [x |-> TRUE, cmt |-> TRUE, names |-> 1, inl |-> TRUE, hex |-> 2, poss |-> TRUE, anch |-> TRUE] >>

Hex2(c) == CASE c = "a" -> "61" [] c = "b" -> "62" [] c = "c" -> "63" [] c = "A" -> "41" [] c = "B" -> "42"
             [] c = "N" -> "0A" [] c = "D" -> "2D" [] c = "S" -> "20" [] c = "E" -> "E9" [] c = "Z" -> "C9" [] OTHER -> ""
HexL(c) == CASE c = "a" -> "61" [] c = "b" -> "62" [] c = "c" -> "63" [] c = "A" -> "41" [] c = "B" -> "42" [] c = "C" -> "43"
             [] c = "x" -> "78" [] c = "y" -> "79" [] c = "0" -> "30" [] c = "1" -> "31" [] c = "9" -> "39"
             [] c = "N" -> "a" [] c = "D" -> "2d" [] c = "S" -> "20" [] c = "R" -> "d" [] c = "U" -> "5f"
             [] c = "E" -> "e9" [] c = "Z" -> "c9" [] c = "K" -> "e01" [] c = "T" -> "3042" [] c = "Q" -> "1f600" [] OTHER -> ""
LitFrag(c, st, inClass) ==
   IF st.hex = 1 /\ Hex2(c) # "" THEN <<"\\x" \o Hex2(c)>>
   ELSE IF st.hex = 2 /\ Hex2(c) # "" THEN <<"\\x{" \o Hex2(c) \o "}">>
   ELSE IF st.hex = 3 /\ Hex2(c) # "" THEN <<"\\u00" \o Hex2(c)>>
   ELSE IF st.hex = 4 /\ HexL(c) # "" THEN <<"\\x{" \o HexL(c) \o "}">>
   ELSE IF st.hex = 5 /\ HexL(c) # "" THEN <<"\\u{" \o HexL(c) \o "}">>
   ELSE CASE c = "N" -> <<"\\n">> [] c = "S" -> <<"\\ ">> [] c = "D" -> IF inClass THEN <<"\\-">> ELSE <<"-">>
          [] c \in {"E", "Z", "T", "Q", "K"} -> <<"@" \o c>>
          [] c = "U" -> <<"_">> [] c = "R" -> <<"\\r">>
          [] OTHER -> <<c>>
RECURSIVE ClassFrags(_, _, _)
ClassFrags(set, st, j) == IF j > Len(set) THEN <<>> ELSE LitFrag(set[j], st, TRUE) \o ClassFrags(set, st, j + 1)

Quant(lo, hi) == IF lo = 0 /\ hi = 1 THEN "?" ELSE IF lo = 0 /\ hi < 0 THEN "*" ELSE IF lo = 1 /\ hi < 0 THEN "+"
                 ELSE IF hi < 0 THEN "{" \o ToString(lo) \o ",}" ELSE IF lo = hi THEN "{" \o ToString(lo) \o "}"
                 ELSE "{" \o ToString(lo) \o "," \o ToString(hi) \o "}"
RECURSIVE Ones(_)
Ones(n) == IF n = 0 THEN "" ELSE "1" \o Ones(n - 1)
NameOf(n) == "x" \o Ones(n)

CI(st, frags) == IF st.inl THEN <<"(?:", "(?i)">> \o frags \o <<")">> ELSE <<"(?i:">> \o frags \o <<")">>
Sep(st) == (IF st.x THEN <<" ">> ELSE <<>>) \o (IF st.cmt THEN <<"(?#c)">> ELSE <<>>)
Bar(st) == IF st.x THEN <<" |", " # alt\n ">> ELSE <<"|">>

\* result [s |-> fragments, g |-> groups opened so far]
RECURSIVE Sp(_, _, _, _), SpCat(_, _, _, _), SpAlt(_, _, _, _)
SpCat(xs, j, st, g) == IF j > Len(xs) THEN [s |-> <<>>, g |-> g]
                       ELSE LET a == Sp(xs[j], 1, st, g)  b == SpCat(xs, j + 1, st, a.g)
                            IN [s |-> a.s \o (IF j < Len(xs) THEN Sep(st) ELSE <<>>) \o b.s, g |-> b.g]
SpAlt(xs, j, st, g) == IF j > Len(xs) THEN [s |-> <<>>, g |-> g]
                       ELSE LET a == Sp(xs[j], 1, st, g)  b == SpAlt(xs, j + 1, st, a.g)
                            IN [s |-> a.s \o (IF j < Len(xs) THEN Bar(st) ELSE <<>>) \o b.s, g |-> b.g]
\* prec: 0 alternation may stand bare, 1 concatenation may stand bare, 2 must be an atom
Sp(e, prec, st, g) ==
   LET W(open, r, close) == [s |-> open \o r.s \o close, g |-> r.g]
       Leaf(fr) == [s |-> fr, g |-> g]
   IN
   CASE e.k = "empty" -> Leaf(IF prec >= 2 THEN <<"(?:)">> ELSE <<>>)
     [] e.k = "lit" -> Leaf(IF e.ci THEN CI(st, LitFrag(e.c, st, FALSE)) ELSE LitFrag(e.c, st, FALSE))
     [] e.k = "any" -> Leaf(IF e.nl THEN <<"(?s:.)">> ELSE <<".">>)
     [] e.k = "class" -> LET body == <<"[">> \o (IF e.neg THEN <<"^">> ELSE <<>>) \o ClassFrags(e.set, st, 1) \o <<"]">>
                         IN Leaf(IF e.ci THEN CI(st, body) ELSE body)
     [] e.k = "cat" -> LET r == SpCat(e.xs, 1, st, g) IN IF prec >= 2 THEN W(<<"(?:">>, r, <<")">>) ELSE r
     [] e.k = "alt" -> LET r == SpAlt(e.xs, 1, st, g) IN IF prec >= 1 THEN W(<<"(?:">>, r, <<")">>) ELSE r
     [] e.k = "rep" -> LET r == Sp(e.x, 0, st, g)
                       IN W(<<"(?:">>, r, <<")", Quant(e.lo, e.hi)>> \o (IF e.g THEN <<>> ELSE <<"?">>))
     [] e.k = "grp" -> LET r == Sp(e.x, 0, st, g + 1)
                           open == IF st.names = 1 THEN <<"(?<" \o NameOf(e.n) \o ">">> ELSE IF st.names = 2 THEN <<"(?P<" \o NameOf(e.n) \o ">">> ELSE <<"(">>
                       IN W(open, r, <<")">>)
     [] e.k = "atom" -> IF st.poss /\ e.x.k = "rep"
                        THEN LET r == Sp(e.x.x, 0, st, g) IN W(<<"(?:">>, r, <<")", Quant(e.x.lo, e.x.hi)>> \o (IF e.x.g THEN <<>> ELSE <<"?">>) \o <<"+">>)
                        ELSE W(<<"(?>">>, Sp(e.x, 0, st, g), <<")">>)
     [] e.k = "look" -> W(IF e.neg THEN <<"(?!">> ELSE <<"(?=">>, Sp(e.x, 0, st, g), <<")">>)
     [] e.k = "lookb" -> W(IF e.neg THEN <<"(?<!">> ELSE <<"(?<=">>, Sp(e.x, 0, st, g), <<")">>)
     [] e.k = "bref" -> Leaf(CASE st.names = 1 -> <<"\\k<" \o NameOf(e.n) \o ">">>
                               [] st.names = 2 -> <<"(?P=" \o NameOf(e.n) \o ")">>
                               [] st.names = 3 -> <<"\\k<-" \o ToString(g - e.n + 1) \o ">">>
                               [] OTHER -> <<"(?:\\" \o ToString(e.n) \o ")">>)
     [] e.k = "bex" -> Leaf(IF st.names \in {1, 2} THEN <<"(?(<" \o NameOf(e.n) \o ">))">> ELSE <<"(?(" \o ToString(e.n) \o "))">>)
     [] e.k = "cond" ->
          LET copen == IF e.c.k = "bex"
                       THEN [s |-> <<"(?(">> \o (IF st.names \in {1, 2} THEN <<"<" \o NameOf(e.c.n) \o ">">> ELSE <<ToString(e.c.n)>>) \o <<")">>, g |-> g]
                       ELSE IF e.c.k \in {"look", "lookb"} THEN W(<<"(?(">>, Sp(e.c, 0, st, g), <<")">>)
                       ELSE W(<<"(?(", "(?:">>, Sp(e.c, 0, st, g), <<")", ")">>)
              y == Sp(e.y, 1, st, copen.g)
              n == Sp(e.n, 1, st, y.g)
          IN [s |-> copen.s \o y.s \o (IF e.n.k = "empty" THEN <<>> ELSE <<"|">> \o n.s) \o <<")">>, g |-> n.g]
     [] e.k = "lwb" -> Leaf(<<"\\<">>)
     [] e.k = "rwb" -> Leaf(<<"\\>">>)
     [] e.k = "eolz" -> Leaf(<<"\\Z">>)
     [] e.k = "keep" -> Leaf(<<"\\K">>)
     [] e.k = "cont" -> Leaf(<<"\\G">>)
     [] e.k = "bol" -> Leaf(IF st.anch THEN <<"\\A">> ELSE <<"^">>)
     [] e.k = "eol" -> Leaf(IF st.anch THEN <<"\\z">> ELSE <<"$">>)
     [] e.k = "mbol" -> Leaf(<<"(?m:^)">>)
     [] e.k = "meol" -> Leaf(<<"(?m:$)">>)
     [] e.k = "wb" -> Leaf(<<"\\b">>)
     [] e.k = "nwb" -> Leaf(<<"\\B">>)
Spell(ast, st) == (IF st.x THEN <<"(?x)", " ">> ELSE <<>>) \o Sp(ast, 0, st, 0).s

\* a style applies to a pattern when it changes the spelling; relative references need the target to be closed
\* (the reference counts back from the groups opened so far) -- guaranteed by RefsClosedEarlier
Applicable(ast, st) == st = Plain \/ Spell(ast, st) # Spell(ast, Plain)
=============================================================================
