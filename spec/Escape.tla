------------------------------- MODULE Escape -------------------------------
(***************************************************************************)
(* fancy_regex::escape (C17): a backslash goes in front of every special   *)
(* character; the input is borrowed iff nothing needed escaping; the       *)
(* result, read as a pattern, is the literal sequence s -- alone and       *)
(* embedded in host patterns.                                              *)
(***************************************************************************)
EXTENDS RefSem

Specials == {"\\", ".", "+", "*", "?", "(", ")", "|", "[", "]", "{", "}", "^", "$", "#"}
RECURSIVE EscapeStr(_)
EscapeStr(s) == IF s = <<>> THEN <<>> ELSE (IF Head(s) \in Specials THEN <<"\\", Head(s)>> ELSE <<Head(s)>>) \o EscapeStr(Tail(s))
Borrows(s) == \A j \in 1..Len(s) : s[j] \notin Specials

\* the pattern escape(s) is meant to be: the literal sequence
LitSeq(s) == IF s = <<>> THEN Empty ELSE IF Len(s) = 1 THEN Lit(s[1]) ELSE Cat([j \in 1..Len(s) |-> Lit(s[j])])

\* str::find: first character position at which s occurs in t, or -1
FirstOccurrence(s, t) ==
   LET S == {i \in 0..(Len(t) - Len(s)) : SubSeq(t, i + 1, i + Len(s)) = s}
   IN IF S = {} THEN -1 ELSE CHOOSE i \in S : \A k \in S : i <= k

\* hosts: string-level <<prefix, suffix>> around escape(s), and the AST the whole is meant to be
EscAlphabet == <<"\\", ".", "+", "*", "?", "(", ")", "|", "[", "]", "{", "}", "^", "$", "#",
                 "a", "1", "S", "N", "E", "T", "Q", "D", "&">>
NHosts == 6
HostStr(h) == CASE h = 1 -> << <<>>, <<>> >>
                [] h = 2 -> << <<"(">>, <<")", "\\", "1">> >>
                [] h = 3 -> << <<"(", "?", "=">>, <<")">> >>
                [] h = 4 -> << <<"(", "?", "<", "=">>, <<")">> >>
                [] h = 5 -> << <<"a", "*", "?">>, <<"(", "?", "=", ")">> >>
                [] h = 6 -> << <<"(", "?", ">">>, <<")", "(", "?", "!", "a", ")">> >>
HostAst(h, s) == LET L == LitSeq(s) IN
                 CASE h = 1 -> L
                   [] h = 2 -> Cat(<<Grp(1, L), Bref(1)>>)
                   [] h = 3 -> Look(L)
                   [] h = 4 -> LookB(L)
                   [] h = 5 -> Cat(<<Rep(Lit("a"), 0, -1, FALSE), L, Look(Empty)>>)
                   [] h = 6 -> Cat(<<Atom(L), NLook(Lit("a"))>>)
HostNg(h) == IF h = 2 THEN 1 ELSE 0

\* haystacks derived from s
Hay(s) == << s, <<"a">> \o s, s \o s, <<"a">> \o s \o <<"E">> \o s \o <<"a">>, (IF s = <<>> THEN <<>> ELSE Tail(s)) \o s, <<"a", "E">> >>
=============================================================================
