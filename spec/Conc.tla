-------------------------------- MODULE Conc --------------------------------
(***************************************************************************)
(* Concurrent use of one compiled regex (C18): N threads, each making a    *)
(* sequence of search calls on the SAME immutable program.  What is shared *)
(* and what is not, as in the code:                                        *)
(*   shared, immutable   the program (Regex is Sync because of this)       *)
(*   shared, mutable     the pool of scratch caches of the inner engine    *)
(*                       (regex-automata's Pool): a delegate instruction   *)
(*                       takes a cache, uses it, puts it back              *)
(*   per call            the whole VM state (pc, ix, slots, branch stack)  *)
(* One action per VM instruction of one thread; a Delegate is three        *)
(* actions (Acquire, Run, Release) so that TLC explores every interleaving *)
(* around the pool.                                                        *)
(*                                                                         *)
(* Properties: every completed call returns exactly what the same call     *)
(* returns alone (RunToEnd), two threads never hold the same cache, no     *)
(* deadlock before all calls are done.                                     *)
(*                                                                         *)
(* Negative controls (the model can express the failures):                 *)
(*   BrokenPool  = TRUE: taking a cache does not remove it from the pool   *)
(*   SharedSlots = TRUE: the slot vector is hoisted into the shared object *)
(***************************************************************************)
EXTENDS Compile, VM
CONSTANTS NThreads, BrokenPool, SharedSlots

Pats == << Cat(<<Grp(1, Plus(Class(<<"a", "b">>))), Look(Empty), Class(<<"b">>)>>),          \* ([ab]+)(?=)[b]    delegates inside a VM loop
           Cat(<<Alt(<<Lit("a"), Cat(<<Lit("a"), Lit("b")>>)>>), Look(Class(<<"b">>)), Opt(Class(<<"b">>))>>) >>   \* (?:a|ab)(?=[b])[b]?
Ngs == <<1, 0>>
TextsC == << <<"a", "b">>, <<"a", "a", "b">> >>
Progs == [i \in 1..Len(Pats) |-> Compile(Pats[i], Ngs[i])]
\* every thread makes two calls: (pattern, text)
CallsOf(t) == IF t % 2 = 1 THEN << <<1, 1>>, <<2, 2>> >> ELSE << <<2, 1>>, <<1, 2>> >>
EnvOf(call) == [prog |-> Progs[call[1]].p, ns |-> Progs[call[1]].ns, t |-> TextsC[call[2]], pos |-> 0, skip |-> FALSE, limit |-> 1000, maxstack |-> 1000]
Sequential(call) == LET e == EnvOf(call)  s == RunToEnd(InitState(e), e, 2000) IN <<s.st, SubSeq(s.saves, 1, 2 * Ngs[call[1]] + 2)>>

Threads == 1..NThreads
VARIABLES th, pool, ncache, shared
vars == <<th, pool, ncache, shared>>
\* th[t] = [ci, phase, vm, hold, res];  shared = the hoisted slot vector (only used when SharedSlots)
Idle == [pc |-> 0, ix |-> 0, saves |-> <<>>, stack |-> <<>>, bt |-> 0, st |-> "idle"]
Init == /\ th = [t \in Threads |-> [ci |-> 1, phase |-> "idle", vm |-> Idle, hold |-> 0, res |-> <<>>]]
        /\ pool = {} /\ ncache = 0 /\ shared = <<>>

Call(t) == CallsOf(t)[th[t].ci]
Env(t) == EnvOf(Call(t))
\* with SharedSlots the thread's slot vector is whatever the shared object holds right now
View(t) == IF SharedSlots THEN [th[t].vm EXCEPT !.saves = shared] ELSE th[t].vm
Put(t, v) == /\ th' = [th EXCEPT ![t].vm = v]
             /\ shared' = IF SharedSlots THEN v.saves ELSE shared

Start(t) == /\ th[t].phase = "idle" /\ th[t].ci <= Len(CallsOf(t))
            /\ LET v == InitState(Env(t)) IN
               /\ th' = [th EXCEPT ![t].phase = "run", ![t].vm = v]
               /\ shared' = IF SharedSlots THEN v.saves ELSE shared
            /\ UNCHANGED <<pool, ncache>>
AtDelegate(t) == th[t].vm.st = "run" /\ Env(t).prog[th[t].vm.pc + 1].op = "Delegate"
StepT(t) == /\ th[t].phase = "run" /\ ~Terminal(th[t].vm) /\ ~AtDelegate(t)
            /\ Put(t, Step(View(t), Env(t)))
            /\ UNCHANGED <<pool, ncache>>
Acquire(t) == /\ th[t].phase = "run" /\ AtDelegate(t)
              /\ \/ /\ pool # {}
                    /\ \E c \in pool : /\ th' = [th EXCEPT ![t].phase = "del", ![t].hold = c]
                                       /\ pool' = IF BrokenPool THEN pool ELSE pool \ {c}
                    /\ UNCHANGED ncache
                 \/ /\ pool = {}
                    /\ ncache' = ncache + 1 /\ th' = [th EXCEPT ![t].phase = "del", ![t].hold = ncache + 1] /\ UNCHANGED pool
              /\ UNCHANGED shared
RunDelegate(t) == /\ th[t].phase = "del"
                  /\ LET v == Step(View(t), Env(t)) IN
                     /\ th' = [th EXCEPT ![t].vm = v, ![t].phase = "rel"]
                     /\ shared' = IF SharedSlots THEN v.saves ELSE shared
                  /\ UNCHANGED <<pool, ncache>>
Release(t) == /\ th[t].phase = "rel"
              /\ pool' = pool \cup {th[t].hold}
              /\ th' = [th EXCEPT ![t].phase = "run", ![t].hold = 0]
              /\ UNCHANGED <<ncache, shared>>
Finish(t) == /\ th[t].phase = "run" /\ Terminal(th[t].vm)
             /\ LET v == View(t) IN
                th' = [th EXCEPT ![t].phase = "idle", ![t].ci = @ + 1,
                                 ![t].res = Append(@, <<v.st, SubSeq(v.saves, 1, 2 * Ngs[Call(t)[1]] + 2)>>)]
             /\ UNCHANGED <<pool, ncache, shared>>
Next == \E t \in Threads : Start(t) \/ StepT(t) \/ Acquire(t) \/ RunDelegate(t) \/ Release(t) \/ Finish(t)
Spec == Init /\ [][Next]_vars

AllDone == \A t \in Threads : th[t].ci > Len(CallsOf(t))
\* every completed call returned what it returns alone
ResultsSequential == \A t \in Threads : \A j \in 1..Len(th[t].res) : th[t].res[j] = Sequential(CallsOf(t)[j])
\* a scratch cache is never used by two threads at once
CacheExclusive == \A a, b \in Threads : (a # b /\ th[a].hold # 0) => th[a].hold # th[b].hold
\* no deadlock: some thread can move unless everything is done
NoDeadlock == AllDone \/ ENABLED Next
=============================================================================
