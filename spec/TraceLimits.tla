----------------------------- MODULE TraceLimits -----------------------------
(***************************************************************************)
(* Trace validation for C07 (termination and limit errors).                *)
(* One record per (pattern, text, offset): the unlimited search (status,   *)
(* captures, statistics from the hook: backtracks B, instructions) and the *)
(* same search under backtrack limits {0,1,2,3,5,10,100,10^6,B-1,B}.       *)
(* TLC checks, per record:                                                 *)
(*  (1) the unlimited run is the run of VM.tla on the REAL program: same   *)
(*      answer, same number of backtracks (so B is the model's B);         *)
(*  (2) for every limit L: VM.tla with limit L gives exactly the recorded  *)
(*      outcome; property form: L >= B => the unlimited answer,            *)
(*      L < B => BacktrackLimitExceeded (exact threshold);                 *)
(*  (3) no StackOverflow / limit error with default limits (inputs here    *)
(*      are tiny), and the instruction count is within StepBound;          *)
(*  (4) plain (non-VM) patterns ignore the limit and always give the same  *)
(*      answer.                                                            *)
(***************************************************************************)
EXTENDS VM, Json, IOUtils
Rec == ndJsonDeserialize(IOEnv.VH_RECS)
Emit(tag, r) == PrintT("@@" \o tag \o " " \o ToJson(r))

\* generous bound on the number of instructions: every forward segment between two backtracks visits
\* each instruction at most once per (text position, loop counter value)
MaxHi(prog) == LET S == {prog[j].hi : j \in {q \in 1..Len(prog) : prog[q].op \in {"RepeatGr", "RepeatNg"}}} \cup {1}
               IN CHOOSE m \in S : \A x \in S : x <= m
StepBound(bt, prog, t) == (bt + 1) * Len(prog) * (Len(t) + 2) * (MaxHi(prog) + 2)

EnvL(c, L) == [prog |-> c.prog, ns |-> c.ns, t |-> c.t, pos |-> c.pos, skip |-> FALSE, limit |-> L, maxstack |-> 1000000]
ModelRun(c, L) == RunToEnd(InitState(EnvL(c, L)), EnvL(c, L), 20000)
CapsOf(s, c) == IF s.st = "match" THEN SubSeq(s.saves, 1, 2 * c.ng + 2) ELSE <<>>

RunOk(c, r, small) ==
   IF ~c.fancy THEN r.status = c.status /\ r.caps = c.caps
   ELSE /\ (r.limit >= c.bt => r.status = c.status /\ r.caps = c.caps)
        /\ (r.limit < c.bt => r.status = "err_limit")
        /\ (small => LET m == ModelRun(c, r.limit) IN m.st = r.status /\ CapsOf(m, c) = r.caps)

VARIABLES l, nok, nrej, nruns, nthr, nskipm
vars == <<l, nok, nrej, nruns, nthr, nskipm>>
Init == l = 1 /\ nok = 0 /\ nrej = 0 /\ nruns = 0 /\ nthr = 0 /\ nskipm = 0
TStep ==
   /\ l <= Len(Rec) /\ l' = l + 1
   /\ LET c == Rec[l]
          small == c.fancy /\ c.insns + c.bt <= 1200
          m0 == IF small THEN ModelRun(c, 1000000) ELSE InitState(EnvL(c, 0))
          unlimitedOk == /\ c.status \in {"match", "nomatch"}
                         /\ (small => m0.st = c.status /\ CapsOf(m0, c) = c.caps /\ m0.bt = c.bt)
                         /\ (c.fancy => c.insns <= StepBound(c.bt, c.prog, c.t))
          bad == {j \in 1..Len(c.runs) : ~RunOk(c, c.runs[j], small)}
      IN /\ nruns' = nruns + Len(c.runs) /\ nthr' = nthr + (IF c.fancy /\ c.bt > 0 THEN 1 ELSE 0)
         /\ nskipm' = nskipm + (IF c.fancy /\ ~small THEN 1 ELSE 0)
         /\ IF unlimitedOk /\ bad = {} THEN nok' = nok + 1 /\ UNCHANGED nrej
            ELSE /\ nrej' = nrej + 1 /\ UNCHANGED nok
                 /\ Emit("REJECT", [id |-> c.id, pat |-> c.pat, t |-> c.t, pos |-> c.pos, status |-> c.status, caps |-> c.caps, bt |-> c.bt, insns |-> c.insns,
                                    step_bound |-> StepBound(c.bt, c.prog, c.t),
                                    model |-> IF small THEN <<m0.st, m0.bt>> ELSE <<"skipped", 0>>,
                                    bad_run |-> IF bad = {} THEN <<>> ELSE <<c.runs[CHOOSE j \in bad : TRUE]>>])
Done == /\ l = Len(Rec) + 1 /\ l' = l + 1
        /\ Emit("STATS", [records |-> Len(Rec), ok |-> nok, rejected |-> nrej, limited_runs |-> nruns, with_backtracking |-> nthr, model_skipped |-> nskipm])
        /\ UNCHANGED <<nok, nrej, nruns, nthr, nskipm>>
Next == TStep \/ Done
Spec == Init /\ [][Next]_vars
Consumed == TLCGet("stats").diameter = Len(Rec) + 2
=============================================================================
