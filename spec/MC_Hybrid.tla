------------------------------ MODULE MC_Hybrid ------------------------------
(***************************************************************************)
(* The hybrid design model-checked: for every pattern of a bounded space,  *)
(* every text and every start offset, the program                          *)
(*      Compile(Analyze(pattern))        (VH_USE = "model", Compile.tla)   *)
(*   or the program dumped from the REAL compiler (VH_USE = "real")        *)
(* is run by VM.tla one instruction per TLC transition.                    *)
(* Invariants at EVERY state: no panic, ix on a character boundary,        *)
(* capture slots valid; at the end: the answer is RefSem!Search's (span    *)
(* and all groups), the run did not hit a limit and did not run away.      *)
(* Patterns come from a file exported from Gram.tla (VH_PATS); texts from  *)
(* Text.tla (VH_TEXTS).                                                    *)
(***************************************************************************)
EXTENDS Compile, VM, Json, IOUtils

Pats  == ndJsonDeserialize(IOEnv.VH_PATS)
Texts == LET T == ndJsonDeserialize(IOEnv.VH_TEXTS) IN [q \in 1..Len(T) |-> T[q].t]
UseReal == IOEnv.VH_USE = "real"
CheckSem == IOEnv.VH_SEM = "1"       \* compare the final answer with RefSem (off for the unrestricted grammar)
Fuel == 3000

Progs == TLCEval([i \in 1..Len(Pats) |->
            IF UseReal THEN [p |-> Pats[i].prog, ns |-> Pats[i].ns, err |-> ""] ELSE Compile(Pats[i].ast, Pats[i].ng)])
Usable(i) == Progs[i].err = "" /\ (CheckSem => ~Excluded_F1(Pats[i].ast))
EnvOf(i, k, pos) == [prog |-> Progs[i].p, ns |-> Progs[i].ns, t |-> Texts[k], pos |-> pos, skip |-> FALSE, limit |-> 100000, maxstack |-> 10000]

VARIABLES pi, ti, pos, vm, steps
vars == <<pi, ti, pos, vm, steps>>
Init == /\ pi \in {i \in 1..Len(Pats) : Usable(i)}
        /\ ti \in 1..Len(Texts)
        /\ pos \in {ByteOff(Texts[ti], c) : c \in 0..Len(Texts[ti])}
        /\ vm = InitState(EnvOf(pi, ti, pos)) /\ steps = 0
StepVM == /\ ~Terminal(vm) /\ steps < Fuel
          /\ vm' = Step(vm, EnvOf(pi, ti, pos)) /\ steps' = steps + 1
          /\ UNCHANGED <<pi, ti, pos>>
Spec == Init /\ [][StepVM]_vars

Env == EnvOf(pi, ti, pos)
NeverPanics == NoPanic(vm)
AlwaysOnBoundary == OnBoundary(vm, Env)
SlotsValid == CaptureSlotsValid(vm, Env, Pats[pi].ng + 1)
AnswerIsValid == AnswerValid(vm, Env)
Terminates == steps < Fuel
NoRuntimeError == vm.st \notin {"err_limit", "err_stack"}
AgreesWithRefSem ==
   (CheckSem /\ Terminal(vm)) =>
      LET t == Texts[ti]
          r == Search(Pats[pi].ast, Pats[pi].ng, t, CharPos(t, pos))
      IN IF vm.st = "match" THEN r # <<>> /\ SubSeq(vm.saves, 1, 2 * Pats[pi].ng + 2) = CapsToBytes(t, r)
         ELSE vm.st = "nomatch" /\ r = <<>>
=============================================================================
