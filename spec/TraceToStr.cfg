SPECIFICATION Spec
CHECK_DEADLOCK FALSE
POSTCONDITION Consumed
