------------------------------ MODULE MC_Front ------------------------------
(***************************************************************************)
(* C19 at design level: for every pattern of an exported space (VH_PATS)   *)
(* and every spelling style of Spell.tla that applies to it, the parser    *)
(* model accepts the spelled characters and the tree it builds means the   *)
(* intended Ast:                                                           *)
(*      FrontEnd(Chars(Spell(ast, style))) = [ok, Norm(ast), ng, names]    *)
(* One TLC state per (pattern, style).                                     *)
(***************************************************************************)
EXTENDS Front, Json, IOUtils
Pats == ndJsonDeserialize(IOEnv.VH_PATS)
VARIABLES pi, si
\* two levels (pattern, then style) so that TLC's workers share the evaluation; the invariants speak about the leaves (si > 0)
Init == pi = 0 /\ si = 0
PickPattern == pi = 0 /\ pi' \in 1..Len(Pats) /\ si' = 0
PickStyle == pi > 0 /\ si = 0 /\ si' \in {q \in 1..Len(Styles) : Applicable(Pats[pi].ast, Styles[q])} /\ pi' = pi
Next == PickPattern \/ PickStyle
Spec == Init /\ [][Next]_<<pi, si>>
Leaf == si > 0

Ast0 == Pats[pi].ast
F == FrontEnd(Chars(Spell(Ast0, Styles[si]), 1))
Accepted == Leaf => F.ok
SameMeaning == (Leaf /\ F.ok) => F.ast = Norm(Ast0)
SameGroupCount == (Leaf /\ F.ok) => F.ng = Pats[pi].ng
\* the named styles name every group x1.. in opening order and nothing else
RECURSIVE OnesSeq(_)
OnesSeq(n) == IF n = 0 THEN <<>> ELSE <<"1">> \o OnesSeq(n - 1)
NamesRight == (Leaf /\ F.ok) => IF Styles[si].names \in {1, 2} THEN F.names = [j \in 1..Pats[pi].ng |-> << <<"x">> \o OnesSeq(j), j >>] ELSE F.names = <<>>
=============================================================================
