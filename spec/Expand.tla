------------------------------- MODULE Expand -------------------------------
(***************************************************************************)
(* Replacement-template expansion as documented for Captures::expand and   *)
(* Expander (src/expand.rs), for both dialects:                            *)
(*                                                                         *)
(*   "dollar":  $$ -> $ ;  ${name}  ;  $name (longest identifier) ;        *)
(*              anything else verbatim.  A numeric name is a group index.  *)
(*   "python":  \\ -> \ ;  \g<name> ;  \N (longest number) ; else verbatim *)
(*                                                                         *)
(* A template and every text are sequences of tokens (Text.tla).  The      *)
(* scanner is written as a step machine over a cursor, one step per        *)
(* emitted Step of expand.rs::exec, so that it can be model-checked        *)
(* (round trip, termination) and used as the oracle of trace validation.   *)
(*                                                                         *)
(* A capture environment is a record                                       *)
(*   [n |-> number of groups incl. group 0,                                *)
(*    txt |-> <<text of group 0, 1, ...>> with None for unset groups,      *)
(*    names |-> sequence of <<name tokens, index>> pairs]                  *)
(***************************************************************************)
EXTENDS Naturals, Integers, Sequences, FiniteSets

None == <<"-none-">>

IdChars == {"a", "b", "c", "A", "B", "C", "g", "x", "y", "0", "1", "9", "U", "E", "T"}
Digits  == {"0", "1", "9"}
DigitVal(c) == CASE c = "0" -> 0 [] c = "1" -> 1 [] c = "9" -> 9
IsId(c) == c \in IdChars
IsDigit(c) == c \in Digits

Dialect(name) ==
   IF name = "dollar" THEN [sub |-> "$", open |-> <<"{">>, close |-> <<"}">>, undelimited |-> TRUE]
   ELSE [sub |-> "\\", open |-> <<"g", "<">>, close |-> <<">">>, undelimited |-> FALSE]

StartsWith(s, p) == Len(s) >= Len(p) /\ SubSeq(s, 1, Len(p)) = p
Drop(s, n) == SubSeq(s, n + 1, Len(s))

\* length of the longest prefix of s whose elements satisfy the predicate given as a set
RECURSIVE RunLen(_, _)
RunLen(s, S) == IF s # <<>> /\ Head(s) \in S THEN 1 + RunLen(Tail(s), S) ELSE 0

\* value of a digit string, or -1 when it does not fit the implementation's usize parse
\* (the model alphabet cannot overflow 64 bits within the bounded template lengths used)
RECURSIVE NumVal(_, _)
NumVal(s, acc) == IF s = <<>> THEN acc ELSE NumVal(Tail(s), 10 * acc + DigitVal(Head(s)))
IsNumber(s) == s # <<>> /\ \A j \in 1..Len(s) : IsDigit(s[j])

\* parse_id(s, open, close): <<id, skip>> or <<>>
ParseId(s, open, close) ==
   IF ~StartsWith(s, open) THEN <<>>
   ELSE LET rest == Drop(s, Len(open))
            n == RunLen(rest, IdChars)
            after == Drop(rest, n)
        IN IF n = 0 THEN <<>>
           ELSE IF n < Len(rest)
                THEN (IF StartsWith(after, close) THEN <<SubSeq(rest, 1, n), Len(open) + n + Len(close)>> ELSE <<>>)
                ELSE (IF close = <<>> THEN <<rest, Len(open) + n>> ELSE <<>>)

\* parse_decimal(s, 0): <<skip, value>> or <<>>
ParseDecimal(s) == LET n == RunLen(s, Digits) IN IF n = 0 THEN <<>> ELSE <<n, NumVal(SubSeq(s, 1, n), 0)>>

(***************************************************************************)
(* One step of the scanner at cursor position i (1-based index of the next *)
(* unread token).  Result: [kind, arg, next] with kind one of              *)
(*   "char" (arg = token), "name" (arg = id), "num" (arg = number),        *)
(*   "error" (the substitution character is then emitted as a char by the  *)
(*   following step, exactly as exec() does: Error then Char, skip 0).     *)
(***************************************************************************)
ScanAt(tpl, i, d) ==
   LET c == tpl[i] IN
   IF c # d.sub THEN [kind |-> "char", arg |-> <<c>>, next |-> i + 1, also |-> <<>>]
   ELSE LET tail == Drop(tpl, i) IN
        IF tail # <<>> /\ Head(tail) = d.sub
        THEN [kind |-> "char", arg |-> <<d.sub>>, next |-> i + 2, also |-> <<>>]
        ELSE LET id1 == ParseId(tail, d.open, d.close)
                 id2 == IF id1 = <<>> /\ d.undelimited THEN ParseId(tail, <<>>, <<>>) ELSE id1
             IN IF id2 # <<>> THEN [kind |-> "name", arg |-> id2[1], next |-> i + 1 + id2[2], also |-> <<>>]
                ELSE LET dec == ParseDecimal(tail)
                     IN IF dec # <<>> THEN [kind |-> "num", arg |-> <<dec[2]>>, next |-> i + 1 + dec[1], also |-> <<>>]
                        ELSE [kind |-> "error", arg |-> <<>>, next |-> i + 1, also |-> <<d.sub>>]

RECURSIVE Steps(_, _, _)
Steps(tpl, i, d) == IF i > Len(tpl) THEN <<>> ELSE LET s == ScanAt(tpl, i, d) IN <<s>> \o Steps(tpl, s.next, d)

\* ----- looking groups up -----
RECURSIVE NameIndex(_, _, _)
NameIndex(names, id, j) == IF j > Len(names) THEN -1 ELSE IF names[j][1] = id THEN names[j][2] ELSE NameIndex(names, id, j + 1)
GroupText(env, n) == IF n >= 0 /\ n < env.n /\ env.txt[n + 1] # None THEN env.txt[n + 1] ELSE <<>>
NameText(env, id) ==
   LET k == NameIndex(env.names, id, 1)
   IN IF k >= 0 /\ k < env.n /\ env.txt[k + 1] # None THEN env.txt[k + 1]
      ELSE IF IsNumber(id) THEN GroupText(env, NumVal(id, 0)) ELSE <<>>

StepOut(env, s) ==
   CASE s.kind = "char"  -> s.arg
     [] s.kind = "name"  -> NameText(env, s.arg)
     [] s.kind = "num"   -> GroupText(env, s.arg[1])
     [] s.kind = "error" -> s.also

RECURSIVE Concat(_, _, _)
Concat(env, ss, j) == IF j > Len(ss) THEN <<>> ELSE StepOut(env, ss[j]) \o Concat(env, ss, j + 1)
Expansion(tpl, env, dialect) == Concat(env, Steps(tpl, 1, Dialect(dialect)), 1)

\* Expander::escape: double every substitution character
RECURSIVE Escape(_, _)
Escape(s, dialect) == IF s = <<>> THEN <<>>
                      ELSE LET c == Head(s) IN (IF c = Dialect(dialect).sub THEN <<c, c>> ELSE <<c>>) \o Escape(Tail(s), dialect)
EscapeBorrows(s, dialect) == \A j \in 1..Len(s) : s[j] # Dialect(dialect).sub

(***************************************************************************)
(* Expander::check: "ok" or the first error in scan order.                 *)
(*   numbered reference: 0 is always fine; otherwise an error when the     *)
(*   regex has named groups, or when the index is >= number of groups      *)
(*   named reference: must be a group name, else treated as a number,      *)
(*   else invalid; a scan error is a parse error                           *)
(***************************************************************************)
CheckNum(env, n) == IF n = 0 THEN "ok" ELSE IF env.names # <<>> THEN "named_only" ELSE IF n < env.n THEN "ok" ELSE "invalid_backref"
CheckStep(env, s) ==
   CASE s.kind = "char"  -> "ok"
     [] s.kind = "name"  -> IF NameIndex(env.names, s.arg, 1) >= 0 THEN "ok"
                            ELSE IF IsNumber(s.arg) THEN CheckNum(env, NumVal(s.arg, 0)) ELSE "invalid_backref"
     [] s.kind = "num"   -> CheckNum(env, s.arg[1])
     [] s.kind = "error" -> "parse_error"
RECURSIVE CheckSteps(_, _, _)
CheckSteps(env, ss, j) == IF j > Len(ss) THEN "ok"
                          ELSE LET r == CheckStep(env, ss[j]) IN IF r # "ok" THEN r ELSE CheckSteps(env, ss, j + 1)
Check(tpl, env, dialect) == CheckSteps(env, Steps(tpl, 1, Dialect(dialect)), 1)

\* every reference of an accepted template names an existing group (the property behind `check`)
RefsExist(tpl, env, dialect) ==
   LET ss == Steps(tpl, 1, Dialect(dialect)) IN
   \A j \in 1..Len(ss) :
      CASE ss[j].kind = "name" -> \/ NameIndex(env.names, ss[j].arg, 1) >= 0
                                  \/ (IsNumber(ss[j].arg) /\ NumVal(ss[j].arg, 0) < env.n)
        [] ss[j].kind = "num"  -> ss[j].arg[1] < env.n
        [] ss[j].kind = "error" -> FALSE
        [] OTHER -> TRUE
=============================================================================
