------------------------------ MODULE TraceToStr ------------------------------
(***************************************************************************)
(* Trace validation of Expr::to_str (the text handed to the regex crate    *)
(* for easy expressions; C03/C01).  For every input pattern the harness    *)
(* records the real parse tree and, for EVERY subtree in pre-order, what    *)
(* to_str printed at precedences 0..3, or <hard> when it panicked.         *)
(*                                                                         *)
(* JUDGED (a violation when it fails): the text printed for a subtree,     *)
(* read the way the regex crate reads it (RxRead.tla), MEANS the subtree   *)
(* (Front!Abs / Norm) -- at precedence 0 and 1 (the two the library uses:  *)
(* whole pattern, delegate pieces) and, where the text is readable, 2, 3.  *)
(* REPORTED only (spec drift, informational): the text differs from what   *)
(* the mirror ToStr.tla prints -- an equivalent different rendering is not *)
(* a violation of any property.                                            *)
(* Texts outside the modelled subset of regex-crate syntax (unicode        *)
(* classes, ranges, counts beyond 10^9) are counted as unjudged.           *)
(***************************************************************************)
EXTENDS RxRead, ToStr, TLC, Json, IOUtils
Rec == ndJsonDeserialize(IOEnv.VH_RECS)
Emit(tag, r) == PrintT("@@" \o tag \o " " \o ToJson(r))

Hard == <<"<hard>">>
PrintsOf(t) == IF Printable(t) THEN <<ToStr(t, 0), ToStr(t, 1), ToStr(t, 2), ToStr(t, 3)>> ELSE <<Hard, Hard, Hard, Hard>>
Means(t) == Norm(Abs(t, 0).a)
\* verdict for one printed text of subtree t: "same" | "differs" | "unread"
Verdict(t, txt) == IF txt = Hard THEN "unread"
                   ELSE LET r == RxRead(txt) IN IF ~r.ok THEN "unread" ELSE IF r.ast = Means(t) THEN "same" ELSE "differs"
\* a subtree whose own meaning is outside the model (unsupported class, huge count) is not judged
RECURSIVE Opaque(_), OpaqueSeq(_, _)
OpaqueSeq(xs, j) == j <= Len(xs) /\ (Opaque(xs[j]) \/ OpaqueSeq(xs, j + 1))
Opaque(e) == \/ (e.k = "Delegate" /\ ~(e.size = 0 /\ e.inner = <<"\n", "*", "$">>) /\ "?" \in DelegSet(e.inner, e.ci))
             \/ (e.k = "Repeat" /\ (e.lo < 0 \/ e.hi < -1))
             \/ OpaqueSeq(AllKids(e), 1)

VARIABLES l, nok, nrej, njudged, nunread, ndrift
vars == <<l, nok, nrej, njudged, nunread, ndrift>>
Init == l = 1 /\ nok = 0 /\ nrej = 0 /\ njudged = 0 /\ nunread = 0 /\ ndrift = 0
TStep == /\ l <= Len(Rec) /\ l' = l + 1
         /\ LET c == Rec[l]
                S == IF c.st = "ok" THEN Subtrees(c.tree) ELSE <<>>
                V == TLCEval([j \in 1..Len(S) |-> IF Opaque(S[j]) THEN <<"unread", "unread", "unread", "unread">>
                                                    ELSE [p \in 1..4 |-> Verdict(S[j], c.prints[j][p])]])
                bad == {j \in 1..Len(S) : \E p \in 1..4 : V[j][p] = "differs"}
                drift == {j \in 1..Len(S) : ~Opaque(S[j]) /\ c.prints[j] # PrintsOf(S[j])}
            IN
            /\ Len(c.prints) = Len(S)
            /\ njudged' = njudged + Cardinality({<<j, p>> \in (1..Len(S)) \X (1..4) : V[j][p] # "unread"})
            /\ nunread' = nunread + Cardinality({<<j, p>> \in (1..Len(S)) \X (1..4) : V[j][p] = "unread" /\ c.prints[j][p] # Hard})
            /\ ndrift' = ndrift + Cardinality(drift)
            /\ (drift # {} => LET d == CHOOSE j \in drift : \A q \in drift : j <= q IN
                              Emit("DRIFT", [id |-> c.id, chars |-> c.chars, subtree |-> d, mirror |-> PrintsOf(S[d]), observed |-> c.prints[d]]))
            /\ IF bad = {} THEN nok' = nok + 1 /\ UNCHANGED nrej
               ELSE /\ nrej' = nrej + 1 /\ UNCHANGED nok
                    /\ LET d == CHOOSE j \in bad : \A q \in bad : j <= q IN
                       Emit("REJECT", [id |-> c.id, chars |-> c.chars, subtree |-> d, tree |-> S[d], observed |-> c.prints[d], verdicts |-> V[d]])
Done == /\ l = Len(Rec) + 1 /\ l' = l + 1
        /\ Emit("STATS", [records |-> Len(Rec), ok |-> nok, rejected |-> nrej, judged_texts |-> njudged, unread_texts |-> nunread, drift_subtrees |-> ndrift])
        /\ UNCHANGED <<nok, nrej, njudged, nunread, ndrift>>
Spec == Init /\ [][TStep \/ Done]_vars
Consumed == TLCGet("stats").diameter = Len(Rec) + 2
=============================================================================
