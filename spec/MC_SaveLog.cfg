SPECIFICATION Spec
CONSTANTS NSlots = 2  Vals = {0, 1}  MaxDepth = 3  MaxX = 2  MaxOps = 6
INVARIANT Refines
INVARIANT LogWellFormed
INVARIANT PopAgrees
INVARIANT TopAgrees
INVARIANT Emit
CONSTRAINT Bound
VIEW view
CHECK_DEADLOCK FALSE
