------------------------------ MODULE Compile ------------------------------
(***************************************************************************)
(* Mirror of src/compile.rs: AST + analysis facts -> VM program, function  *)
(* by function (visit, compile_concat, compile_alt, compile_repeat,        *)
(* compile_lookaround*, compile_conditional, compile_delegate(s)).         *)
(*                                                                         *)
(* Builder state  b = [p |-> instruction sequence, ns |-> number of slots, *)
(*                     err |-> "" or the compile error]                    *)
(* Program counters are 0-based; instruction formats are VM.tla's.         *)
(* g   = number of the next group to be opened (Info::start_group)         *)
(* xd  = explicit_depth: enclosing constructs that keep an entry on the    *)
(*       explicit stack while their body runs (atomic group, condition,    *)
(*       hard look-around body)                                            *)
(*                                                                         *)
(* A delegated piece carries its AST with groups renumbered from 1, the    *)
(* way the automata engine numbers them, plus the range sg..eg of real     *)
(* groups it covers.                                                       *)
(***************************************************************************)
EXTENDS Analyze

Ins(b, i) == [b EXCEPT !.p = Append(@, i)]
Pc(b) == Len(b.p)
NewSave(b) == [b EXCEPT !.ns = @ + 1]
SetField(b, pc, f, v) == [b EXCEPT !.p[pc + 1] = [@ EXCEPT ![f] = v]]
Fails(b, what) == IF b.err = "" THEN [b EXCEPT !.err = what] ELSE b

\* groups of a delegated piece are numbered from 1 inside the piece
RECURSIVE Localize(_, _), LocalizeSeq(_, _, _)
LocalizeSeq(xs, d, j) == IF j > Len(xs) THEN <<>> ELSE <<Localize(xs[j], d)>> \o LocalizeSeq(xs, d, j + 1)
Localize(e, d) ==
   CASE e.k = "grp" -> [e EXCEPT !.n = e.n - d, !.x = Localize(e.x, d)]
     [] e.k \in {"cat", "alt"} -> [e EXCEPT !.xs = LocalizeSeq(e.xs, d, 1)]
     [] e.k \in {"rep", "atom", "look", "lookb"} -> [e EXCEPT !.x = Localize(e.x, d)]
     [] OTHER -> e

RECURSIVE IsLiteral(_)
IsLiteral(e) == (e.k = "lit" /\ ~e.ci) \/ (e.k = "cat" /\ \A j \in 1..Len(e.xs) : IsLiteral(e.xs[j]))
RECURSIVE LiteralOf(_), LiteralOfSeq(_, _)
LiteralOfSeq(xs, j) == IF j > Len(xs) THEN <<>> ELSE LiteralOf(xs[j]) \o LiteralOfSeq(xs, j + 1)
LiteralOf(e) == IF e.k = "lit" THEN <<e.c>> ELSE LiteralOfSeq(e.xs, 1)

\* compile_delegates: several adjacent easy children become one Lit or one Delegate
Delegates(b, xs, g) ==
   IF xs = <<>> THEN b
   ELSE IF \A j \in 1..Len(xs) : IsLiteral(xs[j]) THEN Ins(b, [op |-> "Lit", s |-> LiteralOfSeq(xs, 1)])
   ELSE LET piece == IF Len(xs) = 1 THEN xs[1] ELSE Cat(xs)
            eg == g + OpenedSeq(xs, 1)
        IN Ins(b, [op |-> "Delegate", ast |-> Localize(piece, g - 1), sg |-> g, eg |-> eg])
Delegate1(b, e, g) == Delegates(b, <<e>>, g)

ConstEasy(f) == f.const /\ ~f.hard
Easy(f) == ~f.hard
\* number of leading const-size easy children; number of trailing easy (or const-size easy) children after index lo
RECURSIVE CountLeadingCE(_, _), CountTrailingE(_, _, _), CountTrailingCE(_, _, _)
CountLeadingCE(fs, j) == IF j > Len(fs) \/ ~ConstEasy(fs[j]) THEN 0 ELSE 1 + CountLeadingCE(fs, j + 1)
CountTrailingE(fs, j, lo) == IF j <= lo \/ ~Easy(fs[j]) THEN 0 ELSE 1 + CountTrailingE(fs, j - 1, lo)
CountTrailingCE(fs, j, lo) == IF j <= lo \/ ~ConstEasy(fs[j]) THEN 0 ELSE 1 + CountTrailingCE(fs, j - 1, lo)

RECURSIVE V(_, _, _, _, _, _), VAlt(_, _, _, _, _, _, _, _, _), VLookBehindAlt(_, _, _, _, _, _, _, _),
          VNegSeq(_, _, _, _, _, _), VSeqHard(_, _, _, _, _, _)

PatchJmps(b, jmps, target) ==
   LET RECURSIVE Patch(_, _)
       Patch(bb, k) == IF k > Len(jmps) THEN bb ELSE Patch(SetField(bb, jmps[k], "t", target), k + 1)
   IN Patch(b, 1)

VSeqHard(xs, j, g, xd, b, brefs) ==
   IF j > Len(xs) THEN b ELSE VSeqHard(xs, j + 1, g + Opened(xs[j]), xd, V(xs[j], g, TRUE, xd, b, brefs), brefs)

VConcat(e, g, hard, xd, b, brefs) ==
   LET xs == e.xs
       fs == FactsSeq(xs, brefs, 1)
       prefixEnd == CountLeadingCE(fs, 1)
       suffixLen == IF ~hard THEN CountTrailingE(fs, Len(fs), prefixEnd) ELSE CountTrailingCE(fs, Len(fs), prefixEnd)
       suffixBegin == Len(xs) - suffixLen
       gMid == g + OpenedSeq(SubSeq(xs, 1, prefixEnd), 1)
       gSuf == g + OpenedSeq(SubSeq(xs, 1, suffixBegin), 1)
       b1 == Delegates(b, SubSeq(xs, 1, prefixEnd), g)
       b2 == VSeqHard(SubSeq(xs, prefixEnd + 1, suffixBegin), 1, gMid, xd, b1, brefs)
   IN Delegates(b2, SubSeq(xs, suffixBegin + 1, Len(xs)), gSuf)

\* compile_alt with handler = visit(arm, hard)
VAlt(xs, j, g, hard, xd, b, lastPc, jmps, brefs) ==
   IF j > Len(xs) THEN PatchJmps(b, jmps, Pc(b))
   ELSE LET hasNext == j # Len(xs)
            pc == Pc(b)
            b1 == IF hasNext THEN Ins(b, [op |-> "Split", x |-> pc + 1, y |-> -1]) ELSE b
            b2 == IF lastPc >= 0 THEN SetField(b1, lastPc, "y", pc) ELSE b1
            b3 == V(xs[j], g, hard, xd, b2, brefs)
            b4 == IF hasNext THEN Ins(b3, [op |-> "Jmp", t |-> 0]) ELSE b3
        IN VAlt(xs, j + 1, g + Opened(xs[j]), hard, xd, b4, pc, IF hasNext THEN Append(jmps, Pc(b3)) ELSE jmps, brefs)

\* compile_lookaround_inner
VLookInner(x, g, behind, xd, b, brefs) ==
   LET f == Facts(x, brefs) IN
   IF behind /\ ~f.const THEN Fails(b, "LookBehindNotConst")
   ELSE V(x, g, FALSE, xd, IF behind THEN Ins(b, [op |-> "GoBack", n |-> f.min]) ELSE b, brefs)

VPositiveLook(x, g, behind, xd, b, brefs) ==
   LET f == Facts(x, brefs)
       save == b.ns
       b1 == Ins(NewSave(b), [op |-> "Save", slot |-> save])
       b2 == IF f.hard THEN Ins(b1, [op |-> "BeginAtomic"]) ELSE b1
       b3 == VLookInner(x, g, behind, IF f.hard THEN xd + 1 ELSE xd, b2, brefs)
       b4 == IF f.hard THEN Ins(b3, [op |-> "EndAtomic"]) ELSE b3
   IN Ins(b4, [op |-> "Restore", slot |-> save])

VNegativeLook(x, g, behind, xd, b, brefs) ==
   LET pc == Pc(b)
       b1 == Ins(b, [op |-> "Split", x |-> pc + 1, y |-> -1])
       b2 == VLookInner(x, g, behind, xd, b1, brefs)
       b3 == Ins(b2, [op |-> "FailNegativeLookAround"])
   IN SetField(b3, pc, "y", Pc(b3))

\* `(?<=a|bb)` => `(?<=a)|(?<=bb)` : compile_alt with handler = positive look-behind over the arm
VLookBehindAlt(xs, j, g, xd, b, lastPc, jmps, brefs) ==
   IF j > Len(xs) THEN PatchJmps(b, jmps, Pc(b))
   ELSE LET hasNext == j # Len(xs)
            pc == Pc(b)
            b1 == IF hasNext THEN Ins(b, [op |-> "Split", x |-> pc + 1, y |-> -1]) ELSE b
            b2 == IF lastPc >= 0 THEN SetField(b1, lastPc, "y", pc) ELSE b1
            b3 == VPositiveLook(xs[j], g, TRUE, xd, b2, brefs)
            b4 == IF hasNext THEN Ins(b3, [op |-> "Jmp", t |-> 0]) ELSE b3
        IN VLookBehindAlt(xs, j + 1, g + Opened(xs[j]), xd, b4, pc, IF hasNext THEN Append(jmps, Pc(b3)) ELSE jmps, brefs)
\* `(?<!a|bb)` => `(?<!a)(?<!bb)`
VNegSeq(xs, j, g, xd, b, brefs) ==
   IF j > Len(xs) THEN b ELSE VNegSeq(xs, j + 1, g + Opened(xs[j]), xd, VNegativeLook(xs[j], g, TRUE, xd, b, brefs), brefs)

VLookaround(e, g, xd, b, brefs) ==
   LET x == e.x  f == Facts(x, brefs)  behind == e.k = "lookb"
       splitAlt == behind /\ ~f.const /\ x.k = "alt"
   IN IF splitAlt THEN (IF e.neg THEN VNegSeq(x.xs, 1, g, xd, b, brefs) ELSE VLookBehindAlt(x.xs, 1, g, xd, b, -1, <<>>, brefs))
      ELSE IF e.neg THEN VNegativeLook(x, g, behind, xd, b, brefs) ELSE VPositiveLook(x, g, behind, xd, b, brefs)

VRepeat(e, g, hard0, xd, b, brefs) ==
   LET x == e.x  lo == e.lo  hi == e.hi  greedy == e.g
       f == Facts(e, brefs)  fx == Facts(x, brefs)
   IN
   IF lo = 0 /\ hi = 1
   THEN LET pc == Pc(b)
            b1 == Ins(b, [op |-> "Split", x |-> pc + 1, y |-> pc + 1])
            b2 == V(x, g, hard0, xd, b1, brefs)
        IN SetField(b2, pc, IF greedy THEN "y" ELSE "x", Pc(b2))
   ELSE LET hard == hard0 \/ f.hard IN
   IF hi < 0 /\ fx.min = 0
   THEN LET rep == b.ns  check == b.ns + 1
            b1 == Ins(NewSave(NewSave(b)), [op |-> "Save0", slot |-> rep])
            pc == Pc(b1)
            b2 == Ins(b1, [op |-> IF greedy THEN "RepeatEpsilonGr" ELSE "RepeatEpsilonNg", lo |-> lo, next |-> -1, rep |-> rep, check |-> check])
            b3 == Ins(V(x, g, hard, xd, b2, brefs), [op |-> "Jmp", t |-> pc])
        IN SetField(b3, pc, "next", Pc(b3))
   ELSE IF lo = 0 /\ hi < 0
   THEN LET pc == Pc(b)
            b1 == Ins(b, [op |-> "Split", x |-> pc + 1, y |-> pc + 1])
            b2 == Ins(V(x, g, hard, xd, b1, brefs), [op |-> "Jmp", t |-> pc])
        IN SetField(b2, pc, IF greedy THEN "y" ELSE "x", Pc(b2))
   ELSE IF lo = 1 /\ hi < 0
   THEN LET pc == Pc(b)
            b1 == V(x, g, hard, xd, b, brefs)
            next == Pc(b1) + 1
        IN Ins(b1, [op |-> "Split", x |-> IF greedy THEN pc ELSE next, y |-> IF greedy THEN next ELSE pc])
   ELSE LET rep == b.ns
            b1 == Ins(NewSave(b), [op |-> "Save0", slot |-> rep])
            pc == Pc(b1)
            b2 == Ins(b1, [op |-> IF greedy THEN "RepeatGr" ELSE "RepeatNg", lo |-> lo, hi |-> hi, next |-> -1, rep |-> rep])
            b3 == Ins(V(x, g, hard, xd, b2, brefs), [op |-> "Jmp", t |-> pc])
        IN SetField(b3, pc, "next", Pc(b3))

VConditional(e, g, hard, xd, b, brefs) ==
   LET gy == g + Opened(e.c)  gn == gy + Opened(e.y)
       b1 == Ins(b, [op |-> "BeginAtomic"])
       splitPc == Pc(b1)
       b2 == Ins(b1, [op |-> "Split", x |-> splitPc + 1, y |-> -1])
       b3 == Ins(V(e.c, g, hard, xd + 1, b2, brefs), [op |-> "EndAtomic"])
       b4 == V(e.y, gy, hard, xd, b3, brefs)
       jmpPc == Pc(b4)
       b5 == Ins(b4, [op |-> "Jmp", t |-> 0])
       b6 == SetField(b5, splitPc, "y", Pc(b5))
       b7 == IF xd > 0 THEN Ins(b6, [op |-> "EndAtomic"]) ELSE b6
       b8 == V(e.n, gn, hard, xd, b7, brefs)
   IN SetField(b8, jmpPc, "t", Pc(b8))

V(e, g, hard, xd, b, brefs) ==
   LET f == Facts(e, brefs) IN
   IF ~hard /\ ~f.hard THEN Delegate1(b, e, g)
   ELSE
   CASE e.k = "empty" -> b
     [] e.k = "lit" -> IF ~e.ci THEN Ins(b, [op |-> "Lit", s |-> <<e.c>>]) ELSE Delegate1(b, e, g)
     [] e.k = "any" -> Ins(b, [op |-> IF e.nl THEN "Any" ELSE "AnyNoNL"])
     [] e.k = "class" -> Delegate1(b, e, g)
     [] e.k = "cat" -> VConcat(e, g, hard, xd, b, brefs)
     [] e.k = "alt" -> VAlt(e.xs, 1, g, hard, xd, b, -1, <<>>, brefs)
     [] e.k = "grp" -> Ins(V(e.x, g + 1, hard, xd, Ins(b, [op |-> "Save", slot |-> e.n * 2]), brefs), [op |-> "Save", slot |-> e.n * 2 + 1])
     [] e.k = "rep" -> VRepeat(e, g, hard, xd, b, brefs)
     [] e.k \in {"look", "lookb"} -> VLookaround(e, g, xd, b, brefs)
     [] e.k = "bref" -> Ins(b, [op |-> "Backref", slot |-> e.n * 2])
     [] e.k = "bex" -> Ins(b, [op |-> "BackrefExistsCondition", group |-> e.n])
     [] e.k = "atom" -> Ins(V(e.x, g, FALSE, xd + 1, Ins(b, [op |-> "BeginAtomic"]), brefs), [op |-> "EndAtomic"])
     [] e.k \in AssertKinds -> Ins(b, [op |-> "Assert", a |-> e.k])
     [] e.k = "keep" -> Ins(b, [op |-> "Save", slot |-> 0])
     [] e.k = "cont" -> Ins(b, [op |-> "ContinueFromPreviousMatchEnd"])
     [] e.k = "cond" -> VConditional(e, g, hard, xd, b, brefs)

\* \Z is a look-ahead over the delegate `\n*$` in the real tree
RECURSIVE Desugar(_), DesugarSeq(_, _)
DesugarSeq(xs, j) == IF j > Len(xs) THEN <<>> ELSE <<Desugar(xs[j])>> \o DesugarSeq(xs, j + 1)
Desugar(e) ==
   CASE e.k = "eolz" -> Look(Cat(<<Star(Lit("N")), Asrt("eol")>>))
     [] e.k \in {"cat", "alt"} -> [e EXCEPT !.xs = DesugarSeq(e.xs, 1)]
     [] e.k \in {"rep", "grp", "atom", "look", "lookb"} -> [e EXCEPT !.x = Desugar(e.x)]
     [] e.k = "cond" -> [e EXCEPT !.c = Desugar(e.c), !.y = Desugar(e.y), !.n = Desugar(e.n)]
     [] OTHER -> e

(***************************************************************************)
(* Compile: lib.rs::wrap_tree (lazy `.*?` in front, group 0 around) +       *)
(* compile().  Result [p, ns, err].                                        *)
(***************************************************************************)
Wrapped(ast) == Cat(<<Rep(AnyNL, 0, -1, FALSE), Grp(0, Desugar(ast))>>)
Compile(ast, ng) ==
   LET w == Wrapped(ast)
       b0 == [p |-> <<>>, ns |-> (ng + 1) * 2, err |-> ""]
       b1 == V(w, 0, FALSE, 0, b0, BrefTargets(ast))
   IN Ins(b1, [op |-> "End"])
=============================================================================
