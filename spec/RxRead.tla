-------------------------------- MODULE RxRead --------------------------------
(***************************************************************************)
(* How the regex crate READS the text Expr::to_str hands to it -- an       *)
(* explicit model of the assumption DESIGN.md states for delegation: the   *)
(* subset of regex-crate syntax that to_str can print,                     *)
(*     alt  := cat ('|' cat)*          cat := rep*                         *)
(*     rep  := atom quant*             (stacked quantifiers NEST: a*?+ is  *)
(*                                      (?:a*?)+ ; there is no possessive) *)
(*     quant:= ? | * | + | {n} | {n,} | {n,m}   each optionally lazy (?)   *)
(*     atom := ( alt ) | (?flags: alt ) | . | ^ | $ | \c | [class] | c     *)
(* mapped directly to an Ast (the meaning), with groups numbered by        *)
(* opening parenthesis.  Anything outside the subset is "unsupported"      *)
(* (never judged).  Flags: i (literals and classes fold case), s (. also   *)
(* matches a line feed), m (^ $ at lines).                                 *)
(***************************************************************************)
EXTENDS Front

RxPunct == {"\\", ".", "+", "*", "?", "(", ")", "|", "[", "]", "{", "}", "^", "$", "#", "-", "&", "~", " ", "/", "<", ">", "=", "!", ":", ",", "'", "\"", "@", "%", ";", "_"}
RxOk(ix, a, g) == [ok |-> TRUE, ix |-> ix, a |-> a, g |-> g]
RxBad == [ok |-> FALSE]
RxAt(s, i) == IF i >= 0 /\ i < Len(s) THEN s[i + 1] ELSE "<eof>"
RxDigits == {"0", "1", "2", "3", "4", "5", "6", "7", "8", "9"}
RxDig(c) == CASE c = "0" -> 0 [] c = "1" -> 1 [] c = "2" -> 2 [] c = "3" -> 3 [] c = "4" -> 4 [] c = "5" -> 5 [] c = "6" -> 6 [] c = "7" -> 7 [] c = "8" -> 8 [] c = "9" -> 9
RECURSIVE RxNum(_, _, _, _)
RxNum(s, i, acc, n) == IF RxAt(s, i) \in RxDigits /\ n < 9 THEN RxNum(s, i + 1, 10 * acc + RxDig(RxAt(s, i)), n + 1) ELSE [v |-> acc, ix |-> i, n |-> n]

\* {n} {n,} {n,m} at s[i] = "{": [ok, lo, hi, ix]
RxBrace(s, i) ==
   LET a == RxNum(s, i + 1, 0, 0) IN
   IF a.n = 0 \/ RxAt(s, a.ix) \in RxDigits THEN [ok |-> FALSE]
   ELSE IF RxAt(s, a.ix) = "}" THEN [ok |-> TRUE, lo |-> a.v, hi |-> a.v, ix |-> a.ix + 1]
   ELSE IF RxAt(s, a.ix) # "," THEN [ok |-> FALSE]
   ELSE IF RxAt(s, a.ix + 1) = "}" THEN [ok |-> TRUE, lo |-> a.v, hi |-> -1, ix |-> a.ix + 2]
   ELSE LET b == RxNum(s, a.ix + 1, 0, 0) IN
        IF b.n = 0 \/ RxAt(s, b.ix) # "}" THEN [ok |-> FALSE] ELSE [ok |-> TRUE, lo |-> a.v, hi |-> b.v, ix |-> b.ix + 1]

\* end (index just after the closing bracket) of a FLAT bracket class starting at s[i] = "[", or -1
RECURSIVE RxClassEnd(_, _)
RxClassEnd(s, i) == IF i >= Len(s) THEN -1 ELSE IF s[i + 1] = "\\" THEN RxClassEnd(s, i + 2) ELSE IF s[i + 1] = "]" THEN i + 1 ELSE RxClassEnd(s, i + 1)

\* flags of a "(?flags:" opener at s[i] = "(" : [ok, fl, ix] ; only i, s, m (and the empty list) are read
RECURSIVE RxFlags(_, _, _)
RxFlags(s, i, fl) == IF RxAt(s, i) = ":" THEN [ok |-> TRUE, fl |-> fl, ix |-> i + 1]
                     ELSE IF RxAt(s, i) \in {"i", "s", "m"} THEN RxFlags(s, i + 1, fl \cup {RxAt(s, i)})
                     ELSE [ok |-> FALSE]

RECURSIVE RxAlt(_, _, _, _, _), RxCat(_, _, _, _, _), RxQuants(_, _, _, _), RxAtom(_, _, _, _)
RxAtom(s, i, fl, g) ==
   LET c == RxAt(s, i) IN
   CASE c = "(" ->
          (IF RxAt(s, i + 1) = "?"
           THEN LET f == RxFlags(s, i + 2, fl) IN
                IF ~f.ok THEN RxBad
                ELSE LET r == RxAlt(s, f.ix, f.fl, g, <<>>) IN
                     IF ~r.ok \/ RxAt(s, r.ix) # ")" THEN RxBad ELSE RxOk(r.ix + 1, r.a, r.g)
           ELSE LET r == RxAlt(s, i + 1, fl, g + 1, <<>>) IN
                IF ~r.ok \/ RxAt(s, r.ix) # ")" THEN RxBad ELSE RxOk(r.ix + 1, Grp(g + 1, r.a), r.g))
     [] c = "." -> RxOk(i + 1, [k |-> "any", nl |-> "s" \in fl], g)
     [] c = "^" -> RxOk(i + 1, Asrt(IF "m" \in fl THEN "mbol" ELSE "bol"), g)
     [] c = "$" -> RxOk(i + 1, Asrt(IF "m" \in fl THEN "meol" ELSE "eol"), g)
     [] c = "\\" -> (LET b == RxAt(s, i + 1) IN
                    IF b \in {"d", "w", "s", "D", "W", "S"} THEN RxOk(i + 2, [k |-> "class", set |-> SetToAlphaSeq(DelegSet(<<"\\", b>>, FALSE)), neg |-> FALSE, ci |-> FALSE], g)
                    ELSE IF b \in RxPunct THEN RxOk(i + 2, [k |-> "lit", c |-> TokOf(b), ci |-> "i" \in fl], g)
                    ELSE RxBad)
     [] c = "[" -> (LET e == RxClassEnd(s, i + 1) IN
                    IF e < 0 THEN RxBad
                    ELSE LET S == DelegSet(SubSeq(s, i + 1, e), "i" \in fl) IN
                         IF "?" \in S THEN RxBad ELSE RxOk(e, [k |-> "class", set |-> SetToAlphaSeq(S), neg |-> FALSE, ci |-> FALSE], g))
     [] c \in {"<eof>", ")", "|", "?", "*", "+", "{", "}", "]"} -> RxBad
     [] OTHER -> RxOk(i + 1, [k |-> "lit", c |-> TokOf(c), ci |-> "i" \in fl], g)

\* zero or more quantifiers after the atom `a` (each wraps what is there)
RxQuants(s, i, a, g) ==
   LET c == RxAt(s, i)
       br == IF c = "{" THEN RxBrace(s, i) ELSE [ok |-> FALSE]
   IN IF c \notin {"?", "*", "+"} /\ ~br.ok THEN RxOk(i, a, g)
      ELSE LET lo == CASE c = "?" -> 0 [] c = "*" -> 0 [] c = "+" -> 1 [] OTHER -> br.lo
               hi == CASE c = "?" -> 1 [] c = "*" -> -1 [] c = "+" -> -1 [] OTHER -> br.hi
               i1 == IF c = "{" THEN br.ix ELSE i + 1
               lazy == RxAt(s, i1) = "?"
           IN RxQuants(s, IF lazy THEN i1 + 1 ELSE i1, Rep(a, lo, hi, ~lazy), g)

RxCat(s, i, fl, g, acc) ==
   IF RxAt(s, i) \in {"<eof>", ")", "|"}
   THEN RxOk(i, IF Len(acc) = 0 THEN Empty ELSE IF Len(acc) = 1 THEN acc[1] ELSE Cat(acc), g)
   ELSE LET a == RxAtom(s, i, fl, g) IN
        IF ~a.ok THEN RxBad
        ELSE LET q == RxQuants(s, a.ix, a.a, a.g) IN RxCat(s, q.ix, fl, q.g, Append(acc, q.a))

RxAlt(s, i, fl, g, acc) ==
   LET c == RxCat(s, i, fl, g, <<>>) IN
   IF ~c.ok THEN RxBad
   ELSE IF RxAt(s, c.ix) = "|" THEN RxAlt(s, c.ix + 1, fl, c.g, Append(acc, c.a))
   ELSE RxOk(c.ix, IF acc = <<>> THEN c.a ELSE Alt(Append(acc, c.a)), c.g)

\* the meaning of a printed text: [ok, ast (normal form), ng]
RxRead(s) == LET r == RxAlt(s, 0, {}, 0, <<>>) IN
             IF r.ok /\ r.ix = Len(s) THEN [ok |-> TRUE, ast |-> Norm(r.a), ng |-> r.g] ELSE [ok |-> FALSE]
=============================================================================
