-------------------------------- MODULE Front --------------------------------
(***************************************************************************)
(* The front end closed inside the specification:                          *)
(*                                                                         *)
(*     characters --Parse.tla--> expression tree --Abs--> Ast --Norm-->    *)
(*                                                                         *)
(* Abs mirrors what an `Expr` MEANS as a node of Ast.tla (group numbers by *)
(* opening order, a class Delegate as the set of alphabet tokens it        *)
(* contains, \Z as its expansion); Norm is the normal form shared by an    *)
(* intended Ast and a parsed one (classes as positive sets, foldable       *)
(* case-insensitive literals in lower case, nested concatenations          *)
(* flattened, empty members dropped).                                      *)
(*                                                                         *)
(* With Spell.tla this gives the design-level statement of C19,            *)
(*     Norm(Abs(Parse(Chars(Spell(ast, style))))) = Norm(ast)              *)
(* for every style (MC_Front), and -- composed with Analyze, Compile, VM   *)
(* and RefSem (MC_Hybrid) -- a specification of the whole library from the *)
(* pattern STRING to the search result.  TraceParse binds Parse.tla to the *)
(* real parser tree by tree; the harness keeps its own Rust copy of Abs    *)
(* and Norm (harness/src/absx.rs), which this module pins down.            *)
(***************************************************************************)
EXTENDS Spell
PP == INSTANCE Parse

ALPHASEQ == <<"a", "b", "c", "A", "B", "C", "x", "y", "0", "1", "9", "U", "E", "Z", "T", "K", "Q", "N", "D", "S", "R">>
ALPHA == {ALPHASEQ[j] : j \in 1..Len(ALPHASEQ)}
SetToAlphaSeq(S) == SelectSeq(ALPHASEQ, LAMBDA t : t \in S)

\* a fragment of Spell is a string (or "@E"-style raw character); a pattern is their concatenation, character by character
FragChars(f) == IF Len(f) = 2 /\ SubSeq(f, 1, 1) = "@" THEN <<f>> ELSE [i \in 1..Len(f) |-> SubSeq(f, i, i)]
RECURSIVE Chars(_, _)
Chars(frs, j) == IF j > Len(frs) THEN <<>> ELSE FragChars(frs[j]) \o Chars(frs, j + 1)

\* parser character -> Text token
TokOf(c) == CASE c = "@E" -> "E" [] c = "@Z" -> "Z" [] c = "@T" -> "T" [] c = "@K" -> "K" [] c = "@Q" -> "Q" [] c = "\n" -> "N" [] c = "-" -> "D" [] c = " " -> "S"
              [] c = "_" -> "U" [] c = "\r" -> "R" [] OTHER -> c

(***************************************************************************)
(* Delegate as a character class over ALPHA.  Supported shapes: the        *)
(* bracket classes the parser itself writes for a flat list of members     *)
(* ("[", optional "^", members raw or backslash-escaped, "]") and the Perl *)
(* classes.  Anything else is "opaque" (never produced by Spell).          *)
(***************************************************************************)
PerlSet(b) == CASE b = "d" -> {"0", "1", "9"}
                [] b = "w" -> {"a", "b", "c", "A", "B", "C", "x", "y", "0", "1", "9", "U", "E", "Z", "T", "K"}
                [] b = "s" -> {"N", "S", "R"}
RECURSIVE Members(_, _)
Members(s, j) ==    \* s = the text between the brackets; "?" marks an unsupported construct
   IF j > Len(s) THEN {}
   ELSE IF s[j] = "\\" THEN (IF j + 1 > Len(s) THEN {"?"} ELSE {TokOf(s[j + 1])} \cup Members(s, j + 2))
   ELSE IF s[j] \in {"[", "-", "&", "~", "]"} THEN {"?"}
   ELSE {TokOf(s[j])} \cup Members(s, j + 1)
DelegSet(inner, ci) ==    \* a subset of ALPHA, or {"?"} when the shape is not supported
   IF Len(inner) = 2 /\ inner[1] = "\\" /\ inner[2] \in {"d", "w", "s"} THEN PerlSet(inner[2])
   ELSE IF Len(inner) = 2 /\ inner[1] = "\\" /\ inner[2] \in {"D", "W", "S"}
        THEN ALPHA \ PerlSet(CASE inner[2] = "D" -> "d" [] inner[2] = "W" -> "w" [] OTHER -> "s")
   ELSE IF Len(inner) >= 2 /\ inner[1] = "[" /\ inner[Len(inner)] = "]"
        THEN LET neg == Len(inner) >= 3 /\ inner[2] = "^"
                 body == SubSeq(inner, IF neg THEN 3 ELSE 2, Len(inner) - 1)
                 M == Members(body, 1)
                 inn(t) == IF ci THEN \E m \in M : Fold(m) = Fold(t) ELSE t \in M
             IN IF "?" \in M THEN {"?"} ELSE {t \in ALPHA : inn(t) # neg}

        ELSE {"?"}

ZExpansion == Cat(<<Rep(Lit("N"), 0, -1, TRUE), Asrt("eol")>>)

\* ----- Abs: expression tree -> Ast (result [a, g]; g = groups opened so far) -----
RECURSIVE Abs(_, _), AbsSeq(_, _, _)
AbsSeq(xs, j, g) == IF j > Len(xs) THEN [a |-> <<>>, g |-> g]
                    ELSE LET h == Abs(xs[j], g)  t == AbsSeq(xs, j + 1, h.g) IN [a |-> <<h.a>> \o t.a, g |-> t.g]
Abs(e, g) ==
   LET L(a) == [a |-> a, g |-> g]
       U(f(_)) == LET r == Abs(e.x, g) IN [a |-> f(r.a), g |-> r.g]
   IN
   CASE e.k = "Empty" -> L(Empty)
     [] e.k = "Any" -> L([k |-> "any", nl |-> e.nl])
     [] e.k = "Assert" -> L(Asrt(CASE e.a = "StartText" -> "bol" [] e.a = "EndText" -> "eol" [] e.a = "StartLine" -> "mbol" [] e.a = "EndLine" -> "meol"
                                   [] e.a = "WordBoundary" -> "wb" [] e.a = "NotWordBoundary" -> "nwb"
                                   [] e.a = "LeftWordBoundary" -> "lwb" [] e.a = "RightWordBoundary" -> "rwb" [] OTHER -> e.a))
     [] e.k = "Lit" -> L([k |-> "lit", c |-> TokOf(e.c), ci |-> e.ci])
     [] e.k = "LitN" -> L(Cat([j \in 1..Len(e.c) |-> [k |-> "lit", c |-> TokOf(e.c[j]), ci |-> e.ci]]))      \* a multi-character literal (never built by the parser today)
     [] e.k = "Concat" -> LET r == AbsSeq(e.xs, 1, g) IN [a |-> Cat(r.a), g |-> r.g]
     [] e.k = "Alt" -> LET r == AbsSeq(e.xs, 1, g) IN [a |-> Alt(r.a), g |-> r.g]
     [] e.k = "Group" -> LET r == Abs(e.x, g + 1) IN [a |-> Grp(g + 1, r.a), g |-> r.g]
     [] e.k = "Look" -> LET r == Abs(e.x, g)
                        IN [a |-> [k |-> IF e.la \in {"LA", "LAN"} THEN "look" ELSE "lookb", neg |-> e.la \in {"LAN", "LBN"}, x |-> r.a], g |-> r.g]
     [] e.k = "Repeat" -> LET r == Abs(e.x, g) IN [a |-> Rep(r.a, e.lo, e.hi, e.g), g |-> r.g]
     [] e.k = "Atomic" -> LET r == Abs(e.x, g) IN [a |-> Atom(r.a), g |-> r.g]
     [] e.k = "Delegate" -> L(IF e.size = 0 /\ e.inner = <<"\n", "*", "$">> THEN ZExpansion
                              ELSE LET S == DelegSet(e.inner, e.ci)
                                   IN [k |-> "class", set |-> IF "?" \in S THEN <<"?">> ELSE SetToAlphaSeq(S), neg |-> FALSE, ci |-> FALSE])
     [] e.k = "Backref" -> L(Bref(e.n))
     [] e.k = "BexCond" -> L(Bex(e.n))
     [] e.k = "KeepOut" -> L(Keep)
     [] e.k = "Cont" -> L(Cont)
     [] e.k = "Cond" -> LET c == Abs(e.c, g)  y == Abs(e.y, c.g)  n == Abs(e.n, y.g) IN [a |-> Cond(c.a, y.a, n.a), g |-> n.g]
     [] e.k = "Subr" -> L([k |-> "subr", n |-> e.n])

\* ----- Norm: the shared normal form (a class becomes the positive list of its tokens in ALPHASEQ order) -----
SeqToSet(s) == {s[j] : j \in 1..Len(s)}
RECURSIVE Norm(_), NormCat(_, _)
NormCat(xs, j) ==
   IF j > Len(xs) THEN <<>>
   ELSE LET h == Norm(xs[j]) IN (IF h.k = "empty" THEN <<>> ELSE IF h.k = "cat" THEN h.xs ELSE <<h>>) \o NormCat(xs, j + 1)
Norm(e) ==
   CASE e.k = "lit" -> IF e.ci /\ Fold(e.c) \in {"a", "b", "c", "E"} THEN [k |-> "lit", c |-> Fold(e.c), ci |-> TRUE] ELSE [k |-> "lit", c |-> e.c, ci |-> FALSE]
     [] e.k = "class" -> LET M == SeqToSet(e.set)
                             inn(t) == IF e.ci THEN \E m \in M : Fold(m) = Fold(t) ELSE t \in M
                         IN [k |-> "class", set |-> IF "?" \in M THEN e.set ELSE SetToAlphaSeq({t \in ALPHA : inn(t) # e.neg}), neg |-> FALSE, ci |-> FALSE]
     [] e.k = "eolz" -> Look(ZExpansion)
     [] e.k = "cat" -> LET xs == NormCat(e.xs, 1) IN IF Len(xs) = 0 THEN Empty ELSE IF Len(xs) = 1 THEN xs[1] ELSE Cat(xs)
     [] e.k = "alt" -> Alt([j \in 1..Len(e.xs) |-> Norm(e.xs[j])])
     [] e.k = "rep" -> Rep(Norm(e.x), e.lo, e.hi, e.g)
     [] e.k = "grp" -> Grp(e.n, Norm(e.x))
     [] e.k = "atom" -> Atom(Norm(e.x))
     [] e.k \in {"look", "lookb"} -> [k |-> e.k, neg |-> e.neg, x |-> Norm(e.x)]
     [] e.k = "cond" -> Cond(Norm(e.c), Norm(e.y), Norm(e.n))
     [] e.k = "any" -> [k |-> "any", nl |-> e.nl]
     [] OTHER -> e

\* the whole front end: pattern characters -> [ok, ast, ng, names] / the parse error
FrontEnd(chars) ==
   LET p == PP!Parse(chars) IN
   IF ~p.ok THEN p
   ELSE LET r == Abs(p.e, 0) IN [ok |-> TRUE, ast |-> Norm(r.a), ng |-> r.g, names |-> p.names]
=============================================================================
