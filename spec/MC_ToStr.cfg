SPECIFICATION Spec
INVARIANT PrintedMeansSame
INVARIANT PrintedFitsContext
INVARIANT PiecesConcatenate
CHECK_DEADLOCK FALSE
