------------------------------ MODULE TraceParse ------------------------------
(***************************************************************************)
(* Trace validation of the PARSER (C06, C19): every input of a space is    *)
(* handed to the real Expr::parse_tree and the outcome -- the concrete     *)
(* expression tree and the named-group map, or the error kind and byte     *)
(* position, plus the set of referenced groups (ExprTree::backrefs, which  *)
(* decides what the analysis calls hard) -- must be exactly what Parse.tla *)
(* computes for the same                                                   *)
(* character sequence.  Panics are outcome values (never expected).        *)
(***************************************************************************)
EXTENDS Parse, TLC, Json, IOUtils
Rec == ndJsonDeserialize(IOEnv.VH_RECS)
Emit(tag, r) == PrintT("@@" \o tag \o " " \o ToJson(r))

\* final name -> index map as a set of pairs (later insertions override earlier ones)
NameSet(names) == { <<names[j][1], names[j][2]>> : j \in {q \in 1..Len(names) : \A r \in (q + 1)..Len(names) : names[r][1] # names[q][1]} }
Observed(c) == IF c.st = "ok" THEN [st |-> "ok", tree |-> c.tree, names |-> {<<c.names[j][1], c.names[j][2]>> : j \in 1..Len(c.names)},
                                       brefs |-> {c.brefs[j] : j \in 1..Len(c.brefs)}]
               ELSE [st |-> c.st, kind |-> c.kind, pos |-> c.pos]
Expected(chars) == LET p == Parse(chars) IN
                   IF p.ok THEN [st |-> "ok", tree |-> p.e, names |-> NameSet(p.names), brefs |-> p.brefs]
                   ELSE [st |-> "err", kind |-> p.kind, pos |-> p.pos]

VARIABLES l, nok, nrej, nokp, nerrp
vars == <<l, nok, nrej, nokp, nerrp>>
Init == l = 1 /\ nok = 0 /\ nrej = 0 /\ nokp = 0 /\ nerrp = 0
TStep == /\ l <= Len(Rec) /\ l' = l + 1
         /\ LET c == Rec[l]  ex == TLCEval(Expected(c.chars))  ob == Observed(c) IN
            /\ nokp' = nokp + (IF ex.st = "ok" THEN 1 ELSE 0) /\ nerrp' = nerrp + (IF ex.st = "err" THEN 1 ELSE 0)
            /\ ((c.sametree /\ c.chars0 # <<>> /\ ex.st = "ok" /\ Expected(c.chars0).st = "ok" /\ Expected(c.chars0).tree # ex.tree)
                  => Emit("TREELEMMA", [id |-> c.id, chars |-> c.chars, chars0 |-> c.chars0]))
            /\ IF ex = ob THEN nok' = nok + 1 /\ UNCHANGED nrej
               ELSE nrej' = nrej + 1 /\ UNCHANGED nok /\ Emit("REJECT", [id |-> c.id, chars |-> c.chars, expected |-> ex, observed |-> ob])
Done == /\ l = Len(Rec) + 1 /\ l' = l + 1
        /\ Emit("STATS", [records |-> Len(Rec), ok |-> nok, rejected |-> nrej, parses |-> nokp, parse_errors |-> nerrp])
        /\ UNCHANGED <<nok, nrej, nokp, nerrp>>
Spec == Init /\ [][TStep \/ Done]_vars
Consumed == TLCGet("stats").diameter = Len(Rec) + 2
=============================================================================
