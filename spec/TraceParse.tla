------------------------------ MODULE TraceParse ------------------------------
(***************************************************************************)
(* Trace validation of the PARSER (C06, C19): every input of a space is    *)
(* handed to the real Expr::parse_tree and the outcome -- the concrete     *)
(* expression tree and the named-group map, or the error kind and byte     *)
(* position, plus the set of referenced groups (ExprTree::backrefs, which  *)
(* decides what the analysis calls hard) -- must be exactly what Parse.tla *)
(* computes for the same                                                   *)
(* character sequence.  Panics are outcome values (never expected).        *)
(***************************************************************************)
EXTENDS Front, Json, IOUtils
Rec == ndJsonDeserialize(IOEnv.VH_RECS)
(***************************************************************************)
(* What a difference between the real parser and the mirror MEANS depends  *)
(* on the property the inputs belong to (VH_MODE):                         *)
(*   "contract" (C06, arbitrary strings): a violation is a panic, or an    *)
(*        error position beyond the pattern; any other difference (tree    *)
(*        shape, error kind or position, Ok vs Err) is SPEC DRIFT.         *)
(*   "spelling" (C19, valid patterns written in some style): a violation   *)
(*        is a pattern that does not parse, or whose tree MEANS something  *)
(*        else than the mirror's (Front!Abs / Norm), or whose named-group  *)
(*        map or referenced-group set differs; a different but equivalent  *)
(*        tree shape is SPEC DRIFT.                                        *)
(* Drift is reported (DRIFT lines, counted), never a verdict.              *)
(***************************************************************************)
Mode == IOEnv.VH_MODE
Parse(chars) == PP!Parse(chars)
BLen(chars) == PP!BLen(chars)
Emit(tag, r) == PrintT("@@" \o tag \o " " \o ToJson(r))

\* final name -> index map as a set of pairs (later insertions override earlier ones)
NameSet(names) == { <<names[j][1], names[j][2]>> : j \in {q \in 1..Len(names) : \A r \in (q + 1)..Len(names) : names[r][1] # names[q][1]} }
Observed(c) == IF c.st = "ok" THEN [st |-> "ok", tree |-> c.tree, names |-> {<<c.names[j][1], c.names[j][2]>> : j \in 1..Len(c.names)},
                                       brefs |-> {c.brefs[j] : j \in 1..Len(c.brefs)}]
               ELSE [st |-> c.st, kind |-> c.kind, pos |-> c.pos]
Expected(chars) == LET p == Parse(chars) IN
                   IF p.ok THEN [st |-> "ok", tree |-> p.e, names |-> NameSet(p.names), brefs |-> p.brefs]
                   ELSE [st |-> "err", kind |-> p.kind, pos |-> p.pos]

MeaningOf(tree) == Norm(Abs(tree, 0).a)
ContractOk(c, ob) == ob.st \in {"ok", "err"} /\ (ob.st = "err" => (ob.pos = -1 \/ (ob.pos >= 0 /\ ob.pos <= BLen(c.chars))))
SpellingOk(ex, ob) == /\ ob.st = "ok" /\ ex.st = "ok"
                      /\ MeaningOf(ob.tree) = MeaningOf(ex.tree) /\ ob.names = ex.names /\ ob.brefs = ex.brefs
Acceptable(c, ex, ob) == IF Mode = "contract" THEN ContractOk(c, ob) ELSE SpellingOk(ex, ob)

VARIABLES l, nok, nrej, nokp, nerrp, ndrift
vars == <<l, nok, nrej, nokp, nerrp, ndrift>>
Init == l = 1 /\ nok = 0 /\ nrej = 0 /\ nokp = 0 /\ nerrp = 0 /\ ndrift = 0
TStep == /\ l <= Len(Rec) /\ l' = l + 1
         /\ LET c == Rec[l]  ex == TLCEval(Expected(c.chars))  ob == Observed(c) IN
            /\ nokp' = nokp + (IF ex.st = "ok" THEN 1 ELSE 0) /\ nerrp' = nerrp + (IF ex.st = "err" THEN 1 ELSE 0)
            /\ ((c.sametree /\ c.chars0 # <<>> /\ ex.st = "ok" /\ Expected(c.chars0).st = "ok" /\ Expected(c.chars0).tree # ex.tree)
                  => Emit("TREELEMMA", [id |-> c.id, chars |-> c.chars, chars0 |-> c.chars0]))
            /\ IF ex = ob THEN nok' = nok + 1 /\ UNCHANGED <<nrej, ndrift>>
               ELSE IF Acceptable(c, ex, ob)
               THEN nok' = nok + 1 /\ ndrift' = ndrift + 1 /\ UNCHANGED nrej /\ Emit("DRIFT", [id |-> c.id, chars |-> c.chars, expected |-> ex, observed |-> ob])
               ELSE nrej' = nrej + 1 /\ UNCHANGED <<nok, ndrift>> /\ Emit("REJECT", [id |-> c.id, chars |-> c.chars, expected |-> ex, observed |-> ob])
Done == /\ l = Len(Rec) + 1 /\ l' = l + 1
        /\ Emit("STATS", [records |-> Len(Rec), ok |-> nok, rejected |-> nrej, parses |-> nokp, parse_errors |-> nerrp, drift |-> ndrift])
        /\ UNCHANGED <<nok, nrej, nokp, nerrp, ndrift>>
Spec == Init /\ [][TStep \/ Done]_vars
Consumed == TLCGet("stats").diameter = Len(Rec) + 2
=============================================================================
