------------------------------- MODULE Analyze -------------------------------
(***************************************************************************)
(* Mirror of src/analyze.rs: the static facts the compiler relies on,      *)
(* per node:  min   minimum size in characters                             *)
(*            const every match has exactly that size                      *)
(*            hard  needs the backtracking VM (cannot be delegated)        *)
(* written like the implementation (one CASE arm per `match` arm) and      *)
(* INCLUDING what the code does today; the SOUNDNESS of facts -- the       *)
(* property C13 -- is stated against RefSem in Lens/FactsSound below and   *)
(* checked both on this mirror (MC_Analyze) and on the facts read from the *)
(* real analysis through the hook (TraceFacts).                            *)
(*                                                                         *)
(* brefs = set of groups that are the target of some back-reference        *)
(* (a group is hard when it is).                                           *)
(***************************************************************************)
EXTENDS RefSem

RECURSIVE BrefTargets(_), BrefTargetsSeq(_, _)
BrefTargetsSeq(xs, j) == IF j > Len(xs) THEN {} ELSE BrefTargets(xs[j]) \cup BrefTargetsSeq(xs, j + 1)
BrefTargets(e) == (IF e.k \in {"bref", "bex"} THEN {e.n} ELSE {}) \cup BrefTargetsSeq(Kids(e), 1)

HardAssert == {"wb", "nwb", "lwb", "rwb"}

\* the conditional's minimum as the code computes it (repaired form: min(cond + yes, no))
CondMin(c, y, n) == MinI(c + y, n)

RECURSIVE Facts(_, _), FactsSeq(_, _, _)
FactsSeq(xs, brefs, j) == IF j > Len(xs) THEN <<>> ELSE <<Facts(xs[j], brefs)>> \o FactsSeq(xs, brefs, j + 1)
AllSeq(fs, P(_)) == \A j \in 1..Len(fs) : P(fs[j])
AnySeq(fs, P(_)) == \E j \in 1..Len(fs) : P(fs[j])
RECURSIVE SumMin(_, _)
SumMin(fs, j) == IF j > Len(fs) THEN 0 ELSE fs[j].min + SumMin(fs, j + 1)
RECURSIVE MinMin(_, _)
MinMin(fs, j) == IF j = Len(fs) THEN fs[j].min ELSE MinI(fs[j].min, MinMin(fs, j + 1))
IsConst(f) == f.const
IsHard(f) == f.hard
\* Alt: const iff every arm is const and all arms have the first arm's... (the code compares each arm with the running minimum)
RECURSIVE AltConst(_, _, _, _)
AltConst(fs, j, cs, mn) == IF j > Len(fs) THEN cs ELSE AltConst(fs, j + 1, cs /\ fs[j].const /\ mn = fs[j].min, MinI(mn, fs[j].min))

Facts(e, brefs) ==
   LET F(mn, cs, hd) == [min |-> mn, const |-> cs, hard |-> hd] IN
   CASE e.k \in HardAssert -> F(0, TRUE, TRUE)
     [] e.k \in (AssertKinds \ HardAssert) \cup {"empty"} -> F(0, TRUE, e.k = "eolz")   \* \Z is a look-ahead in the tree
     [] e.k \in {"any", "lit", "class"} -> F(1, TRUE, FALSE)
     [] e.k = "cat" -> LET fs == FactsSeq(e.xs, brefs, 1) IN F(SumMin(fs, 1), AllSeq(fs, IsConst), AnySeq(fs, IsHard))
     [] e.k = "alt" -> LET fs == FactsSeq(e.xs, brefs, 1) IN F(MinMin(fs, 1), AltConst(fs, 2, fs[1].const, fs[1].min), AnySeq(fs, IsHard))
     [] e.k = "grp" -> LET f == Facts(e.x, brefs) IN F(f.min, f.const, f.hard \/ e.n \in brefs)
     [] e.k \in {"look", "lookb"} -> F(0, TRUE, TRUE)
     [] e.k = "rep" -> LET f == Facts(e.x, brefs) IN F(f.min * e.lo, f.const /\ e.lo = e.hi, f.hard)
     [] e.k = "bref" -> F(0, FALSE, TRUE)
     [] e.k = "atom" -> LET f == Facts(e.x, brefs) IN F(f.min, f.const, TRUE)
     [] e.k \in {"keep", "cont", "bex"} -> F(0, TRUE, TRUE)
     [] e.k = "cond" -> LET c == Facts(e.c, brefs)  y == Facts(e.y, brefs)  n == Facts(e.n, brefs)
                        IN F(CondMin(c.min, y.min, n.min), c.const /\ y.const /\ n.const /\ c.min + y.min = n.min, TRUE)
FactsOf(e) == Facts(e, BrefTargets(e))

(***************************************************************************)
(* Lens: the lengths (in characters) with which a sub-expression can       *)
(* succeed, over every text of a space, every start position and every     *)
(* assignment of the groups it refers to (unset or any span of the text).  *)
(***************************************************************************)
RefGroups(e) == BrefTargets(e)
SpansOf(t) == {<<NoCap, NoCap>>} \cup {p \in (0..Len(t)) \X (0..Len(t)) : p[1] <= p[2]}
CapsWith(ng, t, asg) == [j \in 1..(2 * ng + 2) |->
                           IF j > 2 /\ ((j - 1) \div 2) \in DOMAIN asg THEN asg[(j - 1) \div 2][IF j % 2 = 1 THEN 1 ELSE 2] ELSE NoCap]
LensOn(e, ng, t) ==
   LET gs == RefGroups(e)
       asgs == IF Cardinality(gs) > 2 THEN {[g \in gs |-> <<NoCap, NoCap>>]} ELSE [gs -> SpansOf(t)]
       cx == [t |-> t, pos |-> 0, skip |-> FALSE]
   IN UNION { UNION { LET rs == R(e, [i |-> i, caps |-> CapsWith(ng, t, asg)], cx) IN {rs[j].i - i : j \in 1..Len(rs)} : i \in 0..Len(t) } : asg \in asgs }
Lens(e, ng, texts) == UNION { LensOn(e, ng, texts[k]) : k \in 1..Len(texts) }

\* C13: a fact record is sound for a set of witnessed lengths
FactSound(f, lens) == \A n \in lens : n >= f.min /\ (f.const => n = f.min)
=============================================================================
