SPECIFICATION TSpec
CONSTANTS NSlots = 2  Vals = {0, 1}  MaxDepth = 3  MaxX = 2
CHECK_DEADLOCK FALSE
POSTCONDITION Consumed
