------------------------------- MODULE MC_Parse -------------------------------
(***************************************************************************)
(* Model checking of the parser model Parse.tla over ALL character         *)
(* sequences up to MaxLen over a 24-character alphabet of syntax           *)
(* characters (C06 at design level):                                       *)
(*   ErrorPositionInRange  a reported parse-error position is at most the  *)
(*                         pattern length (in bytes)                       *)
(*   TreeWellFormed        an accepted pattern yields a tree whose repeats *)
(*                         have a repeatable operand and lo/hi sane, and   *)
(*                         whose named groups point at existing groups     *)
(* One TLC state per input string.                                         *)
(***************************************************************************)
EXTENDS Parse, TLC
CONSTANT MaxLen
Alphabet == {"(", ")", "?", "#", "\\", "a", "1", "{", "}", ",", "|", "*", "[", "]", "<", ">", "=", "!", ":", "-", "i", "x", "k", "@E"}
Inputs == UNION { [1..n -> Alphabet] : n \in 0..MaxLen }
VARIABLE re
Init == re \in Inputs
Next == UNCHANGED re
Spec == Init /\ [][Next]_re

P == Parse(re)
ErrorPositionInRange == ~P.ok => (P.pos = -1 \/ (P.pos >= 0 /\ P.pos <= BLen(re)))
RECURSIVE Groups(_), GroupsSeq(_, _), WF(_), WFSeq(_, _)
KidsOf(e) == CASE e.k \in {"Concat", "Alt"} -> e.xs [] e.k \in {"Group", "Look", "Repeat", "Atomic"} -> <<e.x>> [] e.k = "Cond" -> <<e.c, e.y, e.n>> [] OTHER -> <<>>
GroupsSeq(xs, j) == IF j > Len(xs) THEN 0 ELSE Groups(xs[j]) + GroupsSeq(xs, j + 1)
Groups(e) == (IF e.k = "Group" THEN 1 ELSE 0) + GroupsSeq(KidsOf(e), 1)
WFSeq(xs, j) == j > Len(xs) \/ (WF(xs[j]) /\ WFSeq(xs, j + 1))
WF(e) == /\ (e.k = "Repeat" => Repeatable(e.x) /\ e.lo >= -2 /\ e.hi >= -2)
         /\ (e.k \in {"Concat", "Alt"} => Len(e.xs) >= 2)
         /\ WFSeq(KidsOf(e), 1)
TreeWellFormed == P.ok => (WF(P.e) /\ \A j \in 1..Len(P.names) : P.names[j][2] >= 1 /\ P.names[j][2] <= Groups(P.e))
=============================================================================
