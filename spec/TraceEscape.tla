----------------------------- MODULE TraceEscape -----------------------------
(* Trace validation of escape() records (C17); see Escape.tla.                *)
(* record: [s, esc, borrowed, rows] with rows <<host, hay#, status, start, end>> (byte offsets) for every (host, haystack) with a result *)
EXTENDS Escape, Json, IOUtils
Rec == ndJsonDeserialize(IOEnv.VH_RECS)
Emit(tag, r) == PrintT("@@" \o tag \o " " \o ToJson(r))
Pick(S) == IF S = {} THEN <<>> ELSE CHOOSE x \in S : TRUE

Expected(s) ==
   UNION { { LET t == Hay(s)[k]  r == Search(HostAst(h, s), HostNg(h), t, 0)  o == Offs(t)
             IN IF r = <<>> THEN <<>> ELSE <<h, k, 0, o[r[1]], o[r[2]]>> : k \in 1..Len(Hay(s)) } : h \in 1..NHosts } \ {<<>>}
\* spec-level lemma: the literal sequence is found exactly where str::find finds it
LemmaOk(s) == \A k \in 1..Len(Hay(s)) :
   LET t == Hay(s)[k]  r == Search(LitSeq(s), 0, t, 0)  f == FirstOccurrence(s, t)
   IN IF f < 0 THEN r = <<>> ELSE r # <<>> /\ r[1] = f /\ r[2] = f + Len(s)

VARIABLES l, nok, nrej, nrows, nesc
vars == <<l, nok, nrej, nrows, nesc>>
Init == l = 1 /\ nok = 0 /\ nrej = 0 /\ nrows = 0 /\ nesc = 0
Step ==
   /\ l <= Len(Rec) /\ l' = l + 1
   /\ LET c == Rec[l]
          exp == TLCEval(Expected(c.s))
          log == {c.rows[j] : j \in 1..Len(c.rows)}
          ok == c.esc = EscapeStr(c.s) /\ c.borrowed = Borrows(c.s) /\ exp = log
      IN /\ nrows' = nrows + Cardinality(exp) /\ nesc' = nesc + (IF Borrows(c.s) THEN 0 ELSE 1)
         /\ (~LemmaOk(c.s) => Emit("LEMMAFAIL", [s |-> c.s]))
         /\ IF ok THEN nok' = nok + 1 /\ UNCHANGED nrej
            ELSE /\ nrej' = nrej + 1 /\ UNCHANGED nok
                 /\ Emit("REJECT", [id |-> c.id, s |-> c.s, esc |-> c.esc, expected_esc |-> EscapeStr(c.s), borrowed |-> c.borrowed,
                                    expected_not_logged |-> Pick(exp \ log), logged_not_expected |-> Pick(log \ exp)])
Done == /\ l = Len(Rec) + 1 /\ l' = l + 1
        /\ Emit("STATS", [records |-> Len(Rec), ok |-> nok, rejected |-> nrej, expected_rows |-> nrows, needing_escape |-> nesc])
        /\ UNCHANGED <<nok, nrej, nrows, nesc>>
Next == Step \/ Done
Spec == Init /\ [][Next]_vars
Consumed == TLCGet("stats").diameter = Len(Rec) + 2
=============================================================================
