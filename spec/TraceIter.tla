------------------------------ MODULE TraceIter ------------------------------
(***************************************************************************)
(* Trace validation of iterator histories (C08, C09, C10, C11).            *)
(* One record per pattern; per text the harness logged the complete        *)
(* history of find_iter / captures_iter / split / splitn(0..5) /           *)
(* try_replacen(limits 0..3 x 8 replacers) of the REAL library.  TLC       *)
(* builds the leaf table from RefSem!Search and requires the histories to  *)
(* be exactly those of Api.tla.                                            *)
(*   VH_PART = "fi"  find_iter = reference iteration             (C08)     *)
(*             "ci"  captures_iter spans = find_iter spans, as recorded,   *)
(*                   and both as the reference says              (C09)     *)
(*             "sp"  split / splitn = reference partition         (C10)    *)
(*             "rp"  replacement results, Cow variant             (C11)    *)
(* Row formats (byte offsets):                                             *)
(*   fi, ci : <<text#, end, after, s1, e1, s2, e2, ...>>                   *)
(*   sp     : <<text#, end, after, a1, b1, ...>>                           *)
(*   spn    : <<text#, limit, end, after, a1, b1, ...>>                    *)
(*   rp     : [k, lim, rid, end, cow, res]; rpb : <<limit, rid, #borrowed>>*)
(*   end: 0 = iterator returned None, 1 = an Err item came (after = number *)
(*   of items yielded after it), 2 = runaway, 3 = panic                    *)
(***************************************************************************)
EXTENDS RefSem, Api, Expand, Json, IOUtils

Rec   == ndJsonDeserialize(IOEnv.VH_RECS)
Texts == LET T == ndJsonDeserialize(IOEnv.VH_TEXTS) IN [q \in 1..Len(T) |-> T[q].t]
Part  == IOEnv.VH_PART
Excl  == IOEnv.VH_EXCL
Excluded(ast) == Excl = "F1" /\ Excluded_F1(ast)
Emit(tag, r) == PrintT("@@" \o tag \o " " \o ToJson(r))
Pick(S) == IF S = {} THEN <<>> ELSE CHOOSE x \in S : TRUE

LeafTable(ast, ng, t) ==
   LET f == TLCEval(SearchAll(ast, ng, t))
       g == IF HasKind(ast, {"cont"}) THEN TLCEval([p \in 0..Len(t) |-> SearchF(ast, ng, t, p, TRUE)]) ELSE f
   IN [q \in (0..Len(t)) \X BOOLEAN |-> IF q[2] THEN g[q[1]] ELSE f[q[1]]]

RECURSIVE Flat(_, _, _)
Flat(sp, o, j) == IF j > Len(sp) THEN <<>> ELSE <<o[sp[j][1]], o[sp[j][2]]>> \o Flat(sp, o, j + 1)

\* ----- replacement outputs -----
Tpl(rid) == CASE rid = 3 -> <<"$", "0">> [] rid = 4 -> <<"[", "$", "1", "]">> [] rid = 5 -> <<"$", "{", "x", "1", "}">> [] rid = 6 -> <<"$", "$">>
EnvOf(ast, t, caps) ==
   [n |-> Len(caps) \div 2,
    txt |-> [g \in 1..(Len(caps) \div 2) |-> IF caps[2 * g - 1] = NoCap THEN None ELSE SubSeq(t, caps[2 * g - 1] + 1, caps[2 * g])],
    names |-> NamedGroups(ast)]
ReplOut(ast, t, caps, rid) ==
   CASE rid = 0 -> SubSeq(t, caps[1] + 1, caps[2])
     [] rid \in {1, 7} -> <<"x">>
     [] rid = 2 -> <<"$", "1">>
     [] OTHER -> Expansion(Tpl(rid), EnvOf(ast, t, caps), "dollar")

\* ----- expectations for one text -----
ExpItems(ast, ng, t) == FindIter(TLCEval(LeafTable(ast, ng, t)), Len(t))

ExpectedFI(ast, ng) ==
   UNION { LET t == Texts[k]  items == TLCEval(ExpItems(ast, ng, t))
           IN IF items = <<>> THEN {} ELSE { <<k, 0, 0>> \o Flat(Spans(items), Offs(t), 1) } : k \in 1..Len(Texts) }

ExpectedSP(ast, ng) ==
   UNION { LET t == Texts[k]  items == TLCEval(ExpItems(ast, ng, t))  ms == Spans(items)  o == Offs(t)
           IN IF items = <<>> THEN {}
              ELSE { <<k, -1, 0, 0>> \o Flat(RefSplit(ms, Len(t)), o, 1) }
                   \cup { <<k, lim, 0, 0>> \o Flat(RefSplitN(ms, Len(t), lim), o, 1) : lim \in 0..5 }
           : k \in 1..Len(Texts) }
\* logged: split rows get limit -1
LoggedSP(c) == { <<c.sp[j][1], -1>> \o SubSeq(c.sp[j], 2, Len(c.sp[j])) : j \in 1..Len(c.sp) } \cup { c.spn[j] : j \in 1..Len(c.spn) }

ExpectedRP(ast, ng) ==
   UNION { LET t == Texts[k]  items == TLCEval(ExpItems(ast, ng, t))  ms == Spans(items)
           IN IF items = <<>> THEN {}
              ELSE { [k |-> k, lim |-> q[1], rid |-> q[2], end |-> 0, cow |-> 1,
                      res |-> RefReplace(t, ms, [j \in 1..Len(items) |-> ReplOut(ast, t, items[j], q[2])], q[1], 1)]
                     : q \in (0..3) \X (0..7) }
           : k \in 1..Len(Texts) }
ExpectedBorrowed(ast, ng) ==
   LET nb == Cardinality({k \in 1..Len(Texts) : ExpItems(ast, ng, Texts[k]) = <<>>})
   IN { <<q[1], q[2], nb>> : q \in (0..3) \X (0..7) }

\* an error history (only with a tiny backtrack limit): the spans before the Err are a prefix of the
\* reference sequence and nothing comes after the Err
IsPrefix(a, b) == Len(a) <= Len(b) /\ SubSeq(b, 1, Len(a)) = a
ErrRowOk(row, exp) == /\ row[3] = 0
                      /\ \E x \in exp \cup {<<row[1], 0, 0>>} : x[1] = row[1] /\ IsPrefix(SubSeq(row, 4, Len(row)), SubSeq(x, 4, Len(x)))

VARIABLES l, nok, nrej, nexcl, ncerr, nitems, npos, nerrh
vars == <<l, nok, nrej, nexcl, ncerr, nitems, npos, nerrh>>
Init == l = 1 /\ nok = 0 /\ nrej = 0 /\ nexcl = 0 /\ ncerr = 0 /\ nitems = 0 /\ npos = 0 /\ nerrh = 0

SetOf(rows) == {rows[j] : j \in 1..Len(rows)}
Verdict(c) ==   \* <<ok?, expected-not-logged, logged-not-expected, #expected rows, #error histories>>
   CASE Part = "fi" ->
          LET exp == TLCEval(ExpectedFI(c.ast, c.ng))  log == SetOf(c.fi)
              errs == {r \in log : r[2] = 1}
          IN IF c.bl < 0 THEN <<exp = log, Pick(exp \ log), Pick(log \ exp), Cardinality(exp), 0>>
             ELSE LET okrows == {r \in log : r[2] = 0}
                      badErr == {r \in errs : ~ErrRowOk(r, exp)}
                      covered == {r[1] : r \in log}
                      missing == {x \in exp : x[1] \notin covered}
                  IN <<okrows \subseteq exp /\ badErr = {} /\ missing = {} /\ (log \ errs) = okrows,
                       Pick(missing), Pick((okrows \ exp) \cup badErr \cup (log \ (errs \cup okrows))), Cardinality(exp), Cardinality(errs)>>
     [] Part = "ci" ->
          LET exp == TLCEval(ExpectedFI(c.ast, c.ng))  f == SetOf(c.fi)  g == SetOf(c.ci)
          IN <<f = g /\ g = exp, Pick((f \cup exp) \ g), Pick(g \ (f \cap exp)), Cardinality(exp), 0>>
     [] Part = "sp" ->
          LET exp == TLCEval(ExpectedSP(c.ast, c.ng))  log == LoggedSP(c)
          IN <<exp = log, Pick(exp \ log), Pick(log \ exp), Cardinality(exp), 0>>
     [] Part = "rp" ->
          LET exp == TLCEval(ExpectedRP(c.ast, c.ng))  log == SetOf(c.rp)
              eb == ExpectedBorrowed(c.ast, c.ng)  lb == SetOf(c.rpb)
          IN <<exp = log /\ eb = lb, IF exp # log THEN Pick(exp \ log) ELSE Pick(eb \ lb),
               IF exp # log THEN Pick(log \ exp) ELSE Pick(lb \ eb), Cardinality(exp), 0>>

Step ==
   /\ l <= Len(Rec) /\ l' = l + 1
   /\ LET c == Rec[l] IN
      IF c.st # "ok"
      THEN /\ ncerr' = ncerr + 1 /\ UNCHANGED <<nok, nrej, nexcl, nitems, npos, nerrh>>
           /\ Emit("CERR", [id |-> c.id, pat |-> c.pat, ek |-> c.ek])
      ELSE IF Excluded(c.ast)
      THEN /\ nexcl' = nexcl + 1 /\ UNCHANGED <<nok, nrej, ncerr, nitems, npos, nerrh>>
      ELSE LET v == TLCEval(Verdict(c))
           IN /\ nitems' = nitems + v[4] /\ npos' = npos + (IF v[4] > 0 THEN 1 ELSE 0) /\ nerrh' = nerrh + v[5]
              /\ UNCHANGED <<nexcl, ncerr>>
              /\ IF v[1] THEN nok' = nok + 1 /\ UNCHANGED nrej
                 ELSE /\ nrej' = nrej + 1 /\ UNCHANGED nok
                      /\ Emit("REJECT", [id |-> c.id, pat |-> c.pat, ast |-> c.ast, ng |-> c.ng, bl |-> c.bl, part |-> Part,
                                         expected_not_logged |-> v[2], logged_not_expected |-> v[3]])
Done == /\ l = Len(Rec) + 1 /\ l' = l + 1
        /\ Emit("STATS", [records |-> Len(Rec), ok |-> nok, rejected |-> nrej, excluded |-> nexcl, cerr |-> ncerr,
                          expected_rows |-> nitems, patterns_with_match |-> npos, error_histories |-> nerrh, texts |-> Len(Texts)])
        /\ UNCHANGED <<nok, nrej, nexcl, ncerr, nitems, npos, nerrh>>
Next == Step \/ Done
Spec == Init /\ [][Next]_vars
Consumed == TLCGet("stats").diameter = Len(Rec) + 2
=============================================================================
