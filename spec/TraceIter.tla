------------------------------ MODULE TraceIter ------------------------------
(***************************************************************************)
(* Trace validation of iterator histories (C08, C09, C10, C11).            *)
(* One record per pattern; per text the harness logged the complete        *)
(* history of find_iter / captures_iter / split / splitn(0..5) /           *)
(* try_replacen(limits 0..3 x 8 replacers) of the REAL library.  TLC       *)
(* builds the leaf table from RefSem!Search and requires the histories to  *)
(* be exactly those of Api.tla.                                            *)
(*   VH_PART = "fi"  find_iter = reference iteration             (C08)     *)
(*             "ci"  captures_iter spans = find_iter spans, as recorded,   *)
(*                   and both as the reference says              (C09)     *)
(*             "sp"  split / splitn = reference partition         (C10)    *)
(*             "rp"  replacement results, Cow variant             (C11)    *)
(* Row formats (byte offsets):                                             *)
(*   fi, ci : <<text#, end, after, s1, e1, s2, e2, ...>>                   *)
(*   sp     : <<text#, end, after, a1, b1, ...>>                           *)
(*   spn    : <<text#, limit, end, after, a1, b1, ...>>                    *)
(*   rp     : [k, lim, rid, end, cow, res]; rpb : <<limit, rid, #borrowed>>*)
(*   end: 0 = iterator returned None, 1 = an Err item came (after = number *)
(*   of items yielded after it), 2 = runaway, 3 = panic                    *)
(***************************************************************************)
EXTENDS Compile, VM, Api, Expand, Json, IOUtils

Rec   == ndJsonDeserialize(IOEnv.VH_RECS)
Texts == LET T == ndJsonDeserialize(IOEnv.VH_TEXTS) IN [q \in 1..Len(T) |-> T[q].t]
Part  == IOEnv.VH_PART
Excl  == IOEnv.VH_EXCL
\* which parts the harness was asked to log (only those are compared with the specification in part x4)
X4Parts == IOEnv.VH_X4PARTS
HasPart(k) == CASE k = "fi" -> X4Parts \in {"all", "norp"} [] k = "sp" -> X4Parts \in {"all", "norp"}
                [] k = "rows" -> X4Parts \in {"all", "norp"} [] k = "rp" -> X4Parts \in {"all", "rp"}
Excluded(ast) == Excl = "F1" /\ Excluded_F1(ast)
Emit(tag, r) == PrintT("@@" \o tag \o " " \o ToJson(r))
Pick(S) == IF S = {} THEN <<>> ELSE CHOOSE x \in S : TRUE

RefLeafTable(ast, ng, t) ==
   LET f == TLCEval(SearchAll(ast, ng, t))
       g == IF HasKind(ast, {"cont"}) THEN TLCEval([p \in 0..Len(t) |-> SearchF(ast, ng, t, p, TRUE)]) ELSE f
   IN [q \in (0..Len(t)) \X BOOLEAN |-> IF q[2] THEN g[q[1]] ELSE f[q[1]]]
(***************************************************************************)
(* Patterns of the class of a known finding (F1) are judged against the    *)
(* DESIGN MODEL instead of RefSem (see TraceRows): the leaf table is what  *)
(* the Compile.tla program run by VM.tla answers for (offset, skip flag).  *)
(***************************************************************************)
DesignLeafTable(ast, ng, t) ==
   LET pr == TLCEval(Compile(ast, ng))
       o == Offs(t)
       Leaf(p, skip) ==
          LET env == [prog |-> pr.p, ns |-> pr.ns, t |-> t, pos |-> o[p], skip |-> skip, limit |-> 1000000, maxstack |-> 1000000]
              fin == RunToEnd(InitState(env), env, 20000)
          IN IF fin.st = "match" THEN [j \in 1..(2 * ng + 2) |-> IF fin.saves[j] = -1 THEN NoCap ELSE CharPos(t, fin.saves[j])]
             ELSE IF fin.st = "nomatch" THEN <<>> ELSE ErrV
   IN TLCEval([q \in (0..Len(t)) \X BOOLEAN |-> Leaf(q[1], q[2])])
\* (only when no DELEGATED piece is itself of the class: the regex crate's treatment of captures inside a nullable loop is not RefSem either)
DesignJudgeable(ast, ng) == LET pr == Compile(ast, ng) IN
                            pr.err = "" /\ \A j \in 1..Len(pr.p) : pr.p[j].op = "Delegate" => ~Excluded_F1(pr.p[j].ast)
LeafTable(ast, ng, t) == IF Excluded(ast) THEN DesignLeafTable(ast, ng, t) ELSE RefLeafTable(ast, ng, t)

RECURSIVE Flat(_, _, _)
Flat(sp, o, j) == IF j > Len(sp) THEN <<>> ELSE <<o[sp[j][1]], o[sp[j][2]]>> \o Flat(sp, o, j + 1)

\* ----- replacement outputs -----
Tpl(rid) == CASE rid = 3 -> <<"$", "0">> [] rid = 4 -> <<"[", "$", "1", "]">> [] rid = 5 -> <<"$", "{", "x", "1", "}">> [] rid = 6 -> <<"$", "$">>
EnvOf(ast, t, caps) ==
   [n |-> Len(caps) \div 2,
    txt |-> [g \in 1..(Len(caps) \div 2) |-> IF caps[2 * g - 1] = NoCap THEN None ELSE SubSeq(t, caps[2 * g - 1] + 1, caps[2 * g])],
    names |-> NamedGroups(ast)]
ReplOut(ast, t, caps, rid) ==
   CASE rid = 0 -> SubSeq(t, caps[1] + 1, caps[2])
     [] rid \in {1, 7} -> <<"x">>
     [] rid = 2 -> <<"$", "1">>
     [] OTHER -> Expansion(Tpl(rid), EnvOf(ast, t, caps), "dollar")

\* ----- expectations for one text -----
ExpItems(ast, ng, t) == FindIter(TLCEval(LeafTable(ast, ng, t)), Len(t))

ExpectedFI(ast, ng) ==
   UNION { LET t == Texts[k]  items == TLCEval(ExpItems(ast, ng, t))
           IN IF items = <<>> THEN {} ELSE { <<k, 0, 0>> \o Flat(Spans(items), Offs(t), 1) } : k \in 1..Len(Texts) }

ExpectedSP(ast, ng) ==
   UNION { LET t == Texts[k]  items == TLCEval(ExpItems(ast, ng, t))  ms == Spans(items)  o == Offs(t)
           IN IF items = <<>> THEN {}
              ELSE { <<k, -1, 0, 0>> \o Flat(RefSplit(ms, Len(t)), o, 1) }
                   \cup { <<k, lim, 0, 0>> \o Flat(RefSplitN(ms, Len(t), lim), o, 1) : lim \in 0..5 }
           : k \in 1..Len(Texts) }
\* logged: split rows get limit -1
LoggedSP(c) == { <<c.sp[j][1], -1>> \o SubSeq(c.sp[j], 2, Len(c.sp[j])) : j \in 1..Len(c.sp) } \cup { c.spn[j] : j \in 1..Len(c.spn) }

ExpectedRP(ast, ng) ==
   UNION { LET t == Texts[k]  items == TLCEval(ExpItems(ast, ng, t))  ms == Spans(items)
           IN IF items = <<>> THEN {}
              ELSE { [k |-> k, lim |-> q[1], rid |-> q[2], end |-> 0, cow |-> 1,
                      res |-> RefReplace(t, ms, [j \in 1..Len(items) |-> ReplOut(ast, t, items[j], q[2])], q[1], 1)]
                     : q \in (0..3) \X (0..7) }
           : k \in 1..Len(Texts) }
ExpectedBorrowed(ast, ng) ==
   LET nb == Cardinality({k \in 1..Len(Texts) : ExpItems(ast, ng, Texts[k]) = <<>>})
   IN { <<q[1], q[2], nb>> : q \in (0..3) \X (0..7) }

ExpectedCaps(ast, ng) ==
   UNION { LET t == Texts[k]  o == Offs(t)  f == TLCEval(SearchAll(ast, ng, t))
           IN { <<k, o[p], 0>> \o CapsToBytes(t, f[p]) : p \in {q \in 0..Len(t) : f[q] # <<>>} } : k \in 1..Len(Texts) }

\* an error history (only with a tiny backtrack limit): the spans before the Err are a prefix of the
\* reference sequence and nothing comes after the Err
IsPrefix(a, b) == Len(a) <= Len(b) /\ SubSeq(b, 1, Len(a)) = a
ErrRowOk(row, exp) == /\ row[3] = 0
                      /\ \E x \in exp \cup {<<row[1], 0, 0>>} : x[1] = row[1] /\ IsPrefix(SubSeq(row, 4, Len(row)), SubSeq(x, 4, Len(x)))

(***************************************************************************)
(* Part "eh": ERROR HISTORIES (records built with a tiny backtrack limit). *)
(* When a search fails is not predicted by the model; what is required is  *)
(* coherence of everything recorded from the SAME regex with what its own  *)
(* find_iter history shows (ms = the Ok matches before the error, if any): *)
(*   ci   captures_iter history = find_iter history                        *)
(*   sp   the Ok pieces of split are RefSplit(ms) -- one more than there   *)
(*        are matches, the remainder piece comes after the Err item --     *)
(*        and splitn(lim)'s are RefSplitN(ms, lim)                   (C10) *)
(*   rp   an Ok result is the text with the first lim matches replaced; a  *)
(*        result that needs a search that failed is Err; a constant string *)
(*        and a closure returning it give identical results          (C11) *)
(***************************************************************************)
EhSet(rows) == {rows[j] : j \in 1..Len(rows)}
RECURSIVE PairsOf(_, _)
PairsOf(sq, j) == IF j + 1 > Len(sq) THEN <<>> ELSE << <<sq[j], sq[j + 1]>> >> \o PairsOf(sq, j + 2)
RECURSIVE FlatPairs(_, _)
FlatPairs(ps, j) == IF j > Len(ps) THEN <<>> ELSE <<ps[j][1], ps[j][2]>> \o FlatPairs(ps, j + 1)
EhOut(t, m, rid) == CASE rid \in {0, 3} -> SubSeq(t, m[1] + 1, m[2]) [] rid \in {1, 7} -> <<"x">> [] rid = 2 -> <<"$", "1">> [] rid = 6 -> <<"$">>
\* ix = the record's rows grouped by text (built once per record)
EhRowsOf(rows, k) == {rows[j] : j \in {i \in 1..Len(rows) : rows[i][1] = k}}
\* (TLCEval: a function value is lazy in TLC -- without it every application would filter the whole row list again)
EhIndex(c, K) == [fi |-> TLCEval([k \in K |-> EhRowsOf(c.fi, k)]), ci |-> TLCEval([k \in K |-> EhRowsOf(c.ci, k)]),
                  sp |-> TLCEval([k \in K |-> EhRowsOf(c.sp, k)]), spn |-> TLCEval([k \in K |-> EhRowsOf(c.spn, k)]),
                  rp |-> TLCEval([k \in K |-> {c.rp[j] : j \in {i \in 1..Len(c.rp) : c.rp[i].k = k}}])]
EhTextBad(ix, k) ==
   LET t == Texts[k]  N == ByteLen(t)
       fr == CHOOSE r \in ix.fi[k] : TRUE
       errd == fr[2] = 1
       ms == PairsOf(SubSeq(fr, 4, Len(fr)), 1)                       \* byte spans
       msc == [j \in 1..Len(ms) |-> <<CharPos(t, ms[j][1]), CharPos(t, ms[j][2])>>]
       nm == Len(ms)
       ciBad == ix.ci[k] # {fr}
       spRows == ix.sp[k]
       spBad == \/ Cardinality(spRows) # 1
                \/ \E r \in spRows : \/ r[2] # fr[2] \/ r[3] # (IF errd THEN 1 ELSE 0)
                                      \/ SubSeq(r, 4, Len(r)) # FlatPairs(RefSplit(ms, N), 1)
       spnBad == \E lim \in 0..5 :
                    LET RR == {r \in ix.spn[k] : r[2] = lim} IN
                    \/ Cardinality(RR) # 1
                    \/ \E r \in RR : r[3] \notin {0, 1} \/ SubSeq(r, 5, Len(r)) # FlatPairs(RefSplitN(ms, N, lim), 1)
       RpAt(lim, rid) == LET S == {e \in ix.rp[k] : e.lim = lim /\ e.rid = rid}
                      IN IF S = {} THEN [end |-> 0, res |-> t] ELSE LET e == CHOOSE e \in S : TRUE IN [end |-> e.end, res |-> e.res]
       MustErr(lim) == errd /\ (lim = 0 \/ nm < lim)
       Want(lim, rid) == RefReplace(t, msc, [j \in 1..nm |-> EhOut(t, msc[j], rid)], lim, 1)
       rpBad == \/ \E lim \in 0..3 : \E rid \in 0..7 :
                      LET e == RpAt(lim, rid) IN
                      \/ e.end \notin {0, 1}
                      \/ (MustErr(lim) /\ e.end # 1)
                      \/ (~errd /\ e.end # 0)
                      \/ (e.end = 0 /\ rid \in {0, 1, 2, 3, 6, 7} /\ e.res # Want(lim, rid))
                \/ \E lim \in 0..3 : RpAt(lim, 1) # RpAt(lim, 7)
   IN (IF ciBad THEN {"ci"} ELSE {}) \cup (IF spBad THEN {"split"} ELSE {}) \cup (IF spnBad THEN {"splitn"} ELSE {}) \cup (IF rpBad THEN {"replace"} ELSE {})

VARIABLES l, nok, nrej, nexcl, ncerr, nitems, npos, nerrh
vars == <<l, nok, nrej, nexcl, ncerr, nitems, npos, nerrh>>
Init == l = 1 /\ nok = 0 /\ nrej = 0 /\ nexcl = 0 /\ ncerr = 0 /\ nitems = 0 /\ npos = 0 /\ nerrh = 0

SetOf(rows) == {rows[j] : j \in 1..Len(rows)}
Verdict(c) ==   \* <<ok?, expected-not-logged, logged-not-expected, #expected rows, #error histories>>
   CASE Part = "fi" ->
          LET exp == TLCEval(ExpectedFI(c.ast, c.ng))  log == SetOf(c.fi)
              errs == {r \in log : r[2] = 1}
          IN IF c.bl < 0 THEN <<exp = log, Pick(exp \ log), Pick(log \ exp), Cardinality(exp), 0>>
             ELSE LET okrows == {r \in log : r[2] = 0}
                      badErr == {r \in errs : ~ErrRowOk(r, exp)}
                      covered == {r[1] : r \in log}
                      missing == {x \in exp : x[1] \notin covered}
                  IN <<okrows \subseteq exp /\ badErr = {} /\ missing = {} /\ (log \ errs) = okrows,
                       Pick(missing), Pick((okrows \ exp) \cup badErr \cup (log \ (errs \cup okrows))), Cardinality(exp), Cardinality(errs)>>
     [] Part = "ci" ->
          LET exp == TLCEval(ExpectedFI(c.ast, c.ng))  f == SetOf(c.fi)  g == SetOf(c.ci)
          IN <<f = g /\ g = exp, Pick((f \cup exp) \ g), Pick(g \ (f \cap exp)), Cardinality(exp), 0>>
     [] Part = "co" ->   \* coherence among RECORDED values only (no reference semantics): C09
          LET f == SetOf(c.fi)  g == SetOf(c.ci)  cells == SetOf(c.cells)  cells0 == SetOf(c.cells0)
              CellAt(k) == {r \in cells : r[1] = k /\ r[2] = 0}
              badCells == {r \in cells : SubSeq(r, 3, 5) # SubSeq(r, 6, 8)}                 \* find_from_pos = captures_from_pos.get(0)
              bad0 == {r \in cells0 :
                         \/ SubSeq(r, 3, 5) # SubSeq(r, 6, 8)                                 \* find = captures.get(0)
                         \/ (r[2] = 1) # (r[3] = 0)                                           \* is_match <=> find is Some
                         \/ (r[2] = 2) # (r[3] \in {1, 2, 5}) \/ (r[2] = 3) # (r[3] = 3)        \* errors and panics coincide
                         \/ (IF r[3] = -1 THEN CellAt(r[1]) # {} ELSE CellAt(r[1]) # {<<r[1], 0>> \o SubSeq(r, 3, 8)})   \* find = find_from_pos(.,0)
                         \/ (r[3] = 0 /\ ~\E x \in f : x[1] = r[1] /\ Len(x) >= 5 /\ x[4] = r[4] /\ x[5] = r[5])}         \* first find_iter item = find
              orphan == {r \in cells : r[2] = 0 /\ ~\E r0 \in cells0 : r0[1] = r[1]}
          IN <<f = g /\ badCells = {} /\ bad0 = {} /\ orphan = {}, Pick((f \ g) \cup badCells), Pick((g \ f) \cup bad0 \cup orphan),
               Cardinality(cells), 0>>
     [] Part = "x4" ->   \* C04: fancy-regex = regex crate on every entry point; and both = the specification
          LET Fy == [fi |-> SetOf(c.fi), ci |-> SetOf(c.ci), sp |-> LoggedSP(c), rp |-> SetOf(c.rp), rpb |-> SetOf(c.rpb),
                    cells |-> SetOf(c.cells), cells0 |-> SetOf(c.cells0), rows |-> SetOf(c.rows)]
              Rx == [fi |-> SetOf(c.r_fi), ci |-> SetOf(c.r_ci),
                    sp |-> { <<c.r_sp[j][1], -1>> \o SubSeq(c.r_sp[j], 2, Len(c.r_sp[j])) : j \in 1..Len(c.r_sp) } \cup SetOf(c.r_spn),
                    rp |-> SetOf(c.r_rp), rpb |-> SetOf(c.r_rpb),
                    cells |-> SetOf(c.r_cells), cells0 |-> SetOf(c.r_cells0), rows |-> SetOf(c.r_rows)]
              Ex == [fi |-> IF HasPart("fi") THEN TLCEval(ExpectedFI(c.ast, c.ng)) ELSE {},
                     sp |-> IF HasPart("sp") THEN TLCEval(ExpectedSP(c.ast, c.ng)) ELSE {},
                     rows |-> IF HasPart("rows") THEN TLCEval(ExpectedCaps(c.ast, c.ng)) ELSE {},
                     rp |-> IF HasPart("rp") THEN TLCEval(ExpectedRP(c.ast, c.ng)) ELSE {}]
              keys == {"fi", "ci", "sp", "rp", "rpb", "cells", "cells0", "rows"}
              diff == {k \in keys : Fy[k] # Rx[k]}
              gap == {k \in {"fi", "sp", "rows", "rp"} : HasPart(k) /\ Fy[k] # Ex[k]}
          IN IF diff # {} THEN LET k == CHOOSE k \in diff : TRUE IN <<FALSE, <<k, Pick(Rx[k] \ Fy[k])>>, <<k, Pick(Fy[k] \ Rx[k])>>, Cardinality(Ex.rows) + Cardinality(Ex.rp), 0>>
             ELSE IF gap # {} THEN LET k == CHOOSE k \in gap : TRUE IN <<FALSE, <<k, Pick(Ex[k] \ Fy[k])>>, <<k, Pick(Fy[k] \ Ex[k])>>, Cardinality(Ex.rows) + Cardinality(Ex.rp), 0, "gap">>
             ELSE <<TRUE, <<>>, <<>>, Cardinality(Ex.rows) + Cardinality(Ex.rp), 0>>
     [] Part = "c5" ->   \* C05: every call returned normally and every reported offset is valid (judged from the raw byte offsets)
          LET Valid(k, a, b) == LET t == Texts[k] IN a >= 0 /\ a <= b /\ b <= ByteLen(t) /\ IsBoundary(t, a) /\ IsBoundary(t, b)
              PairsOk(k, sq) == \A q \in 1..(Len(sq) \div 2) : Valid(k, sq[2 * q - 1], sq[2 * q]) \/ (sq[2 * q - 1] = -1 /\ sq[2 * q] = -1)
              SpansOk(k, sq) == Len(sq) % 2 = 0 /\ \A q \in 1..(Len(sq) \div 2) : Valid(k, sq[2 * q - 1], sq[2 * q])
              badIter == {r \in SetOf(c.fi) \cup SetOf(c.ci) \cup SetOf(c.sp) : r[2] \in {2, 3} \/ ~SpansOk(r[1], SubSeq(r, 4, Len(r)))}
              badSpn == {r \in SetOf(c.spn) : r[3] \in {2, 3} \/ ~SpansOk(r[1], SubSeq(r, 5, Len(r)))}
              badCells == {r \in SetOf(c.cells) : r[3] = 3 \/ r[6] = 3 \/ (r[3] = 0 /\ ~Valid(r[1], r[4], r[5])) \/ (r[6] = 0 /\ ~Valid(r[1], r[7], r[8]))}
              badCells0 == {r \in SetOf(c.cells0) : r[2] = 3 \/ r[3] = 3 \/ r[6] = 3 \/ (r[3] = 0 /\ ~Valid(r[1], r[4], r[5])) \/ (r[6] = 0 /\ ~Valid(r[1], r[7], r[8]))}
              badRows == {r \in SetOf(c.rows) : r[3] = 3 \/ (r[3] = 0 /\ (~PairsOk(r[1], SubSeq(r, 4, Len(r))) \/ ~Valid(r[1], r[4], r[5])))}
              badRp == {r \in SetOf(c.rp) : r.end = 3}
              bad == badIter \cup badSpn \cup badCells \cup badCells0 \cup badRows
          IN <<bad = {} /\ badRp = {}, <<>>, IF bad # {} THEN Pick(bad) ELSE IF badRp # {} THEN <<"replace panicked">> ELSE <<>>,
               Cardinality(SetOf(c.rows)) + Cardinality(SetOf(c.fi)), 0>>
     [] Part = "eh" ->
          LET K == {r[1] : r \in SetOf(c.fi)}
              ix == TLCEval(EhIndex(c, K))
              bad == UNION { LET b == TLCEval(EhTextBad(ix, k)) IN {<<k, w>> : w \in b} : k \in K }
              errs == {r \in SetOf(c.fi) : r[2] = 1}
          IN <<bad = {}, <<>>, Pick(bad), Cardinality(K), Cardinality(errs)>>
     [] Part = "sp" ->
          LET exp == TLCEval(ExpectedSP(c.ast, c.ng))  log == LoggedSP(c)
          IN <<exp = log, Pick(exp \ log), Pick(log \ exp), Cardinality(exp), 0>>
     [] Part = "rp" ->
          LET exp == TLCEval(ExpectedRP(c.ast, c.ng))  log == SetOf(c.rp)
              eb == ExpectedBorrowed(c.ast, c.ng)  lb == SetOf(c.rpb)
          IN <<exp = log /\ eb = lb, IF exp # log THEN Pick(exp \ log) ELSE Pick(eb \ lb),
               IF exp # log THEN Pick(log \ exp) ELSE Pick(lb \ eb), Cardinality(exp), 0>>

TStep ==
   /\ l <= Len(Rec) /\ l' = l + 1
   /\ LET c == Rec[l] IN
      IF c.st # "ok"
      THEN /\ ncerr' = ncerr + 1 /\ UNCHANGED <<nok, nrej, nexcl, nitems, npos, nerrh>>
           /\ Emit("CERR", [id |-> c.id, pat |-> c.pat, ek |-> c.ek])
      ELSE IF (Excluded(c.ast) /\ (Part = "x4" \/ ~DesignJudgeable(c.ast, c.ng))) \/ (Part = "x4" /\ c.r_st # "ok")
      THEN /\ nexcl' = nexcl + 1 /\ UNCHANGED <<nok, nrej, ncerr, nitems, npos, nerrh>>
      ELSE LET v == TLCEval(Verdict(c))
           IN /\ nitems' = nitems + v[4] /\ npos' = npos + (IF v[4] > 0 THEN 1 ELSE 0) /\ nerrh' = nerrh + v[5]
              /\ UNCHANGED <<nexcl, ncerr>>
              /\ IF v[1] THEN nok' = nok + 1 /\ UNCHANGED nrej
                 ELSE /\ nrej' = nrej + 1 /\ UNCHANGED nok
                      /\ Emit(IF Len(v) >= 6 THEN "MODELGAP" ELSE "REJECT", [id |-> c.id, pat |-> c.pat, ast |-> c.ast, ng |-> c.ng, bl |-> c.bl, part |-> Part,
                                         expected_not_logged |-> v[2], logged_not_expected |-> v[3]])
Done == /\ l = Len(Rec) + 1 /\ l' = l + 1
        /\ Emit("STATS", [records |-> Len(Rec), ok |-> nok, rejected |-> nrej, excluded |-> nexcl, cerr |-> ncerr,
                          expected_rows |-> nitems, patterns_with_match |-> npos, error_histories |-> nerrh, texts |-> Len(Texts)])
        /\ UNCHANGED <<nok, nrej, nexcl, ncerr, nitems, npos, nerrh>>
Next == TStep \/ Done
Spec == Init /\ [][Next]_vars
Consumed == TLCGet("stats").diameter = Len(Rec) + 2
=============================================================================
