SPECIFICATION Spec
CONSTANT MaxN = 3
CONSTANT Contract = TRUE
INVARIANT ItemsOrdered
INVARIANT SearchesBounded
INVARIANT ErrIsSticky
INVARIANT PiecesSoFar
INVARIANT FinalPieces
INVARIANT Tiles
CHECK_DEADLOCK FALSE
