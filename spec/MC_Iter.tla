------------------------------- MODULE MC_Iter -------------------------------
(***************************************************************************)
(* Model checking of the iterator layer (C08, C09, C10) for EVERY leaf     *)
(* behaviour: at each search TLC chooses any result allowed by the leaf    *)
(* contract (no match, an error, or any span with pos <= s <= e <= n).     *)
(* One action per search (find_from_pos call) -- the retry after a dropped *)
(* empty match is a separate step, as in the code.                         *)
(*                                                                         *)
(* Split / SplitN ride on the same Matches machine; lim = -1 is plain      *)
(* split, lim >= 0 is splitn(lim).                                         *)
(*                                                                         *)
(* With Contract = FALSE the leaf may also return spans starting before    *)
(* the search offset (what \K inside a look-behind did before the fix):    *)
(* TLC then refutes ItemsOrdered -- the negative control showing that the  *)
(* model can express the failure.                                          *)
(***************************************************************************)
EXTENDS Api, TLC
CONSTANTS MaxN, Contract

VARIABLES n, lim, le, lm, ns, left, items, pieces, st, calls, dead
vars == <<n, lim, le, lm, ns, left, items, pieces, st, calls, dead>>
\* dead: the search at the current (le, lm) already returned "no match"; the leaf is a FUNCTION of its
\* arguments, so asking again (Split does, after the rest piece) gives the same answer
\* st: "run" | "done" (None returned) | "err" (Err returned; next call returns the rest / None)

Init == /\ n \in 0..MaxN /\ lim \in -1..3
        /\ le = 0 /\ lm = -1 /\ ns = 0 /\ left = lim
        /\ items = <<>> /\ pieces = <<>> /\ st = "run" /\ calls = 0 /\ dead = FALSE

LeafResults(pos) ==
   IF dead THEN {<<>>} ELSE
   {<<>>, ErrV} \cup {p \in ((IF Contract THEN pos ELSE 0)..n) \X (0..n) : p[1] <= p[2]}

\* SplitN gate in front of every Split::next call
Gate == IF lim < 0 THEN "split" ELSE IF left = 0 THEN "none" ELSE IF left - 1 > 0 THEN "split" ELSE "rest"

\* one search of the underlying Matches iterator, performed on behalf of Split::next
Search(r) ==
   /\ st = "run" /\ Gate = "split" /\ le <= n
   /\ calls' = calls + 1
   /\ LET x == AfterLeaf(r, le, lm, n) IN
      /\ le' = x.le /\ lm' = x.lm /\ dead' = (x.kind = "none")
      /\ CASE x.kind = "retry" -> UNCHANGED <<ns, left, items, pieces, st>>
           [] x.kind = "yield" -> /\ items' = Append(items, <<r[1], r[2]>>)
                                  /\ pieces' = Append(pieces, <<ns, r[1]>>) /\ ns' = r[2]
                                  /\ left' = (IF lim < 0 THEN left ELSE left - 1) /\ UNCHANGED st
           [] x.kind = "err"   -> /\ st' = "err" /\ left' = (IF lim < 0 THEN left ELSE left - 1)
                                  /\ UNCHANGED <<ns, items, pieces>>
           [] x.kind = "none"  -> /\ left' = (IF lim < 0 THEN left ELSE left - 1) /\ UNCHANGED items
                                  /\ IF ns > n THEN pieces' = pieces /\ ns' = ns /\ st' = "done"
                                     ELSE pieces' = Append(pieces, <<ns, n>>) /\ ns' = n + 1 /\ UNCHANGED st
   /\ UNCHANGED <<n, lim>>

\* Matches exhausted (le > n): Split::next returns the rest once, then None
Exhausted ==
   /\ st = "run" /\ Gate = "split" /\ le > n
   /\ left' = (IF lim < 0 THEN left ELSE left - 1)
   /\ IF ns > n THEN st' = "done" /\ UNCHANGED <<pieces, ns>>
      ELSE pieces' = Append(pieces, <<ns, n>>) /\ ns' = n + 1 /\ UNCHANGED st
   /\ UNCHANGED <<n, lim, le, lm, items, calls, dead>>

\* SplitN: the n-th piece is the untouched remainder; limit exhausted => None
Rest ==
   /\ st = "run" /\ Gate = "rest"
   /\ left' = 0
   /\ IF ns > n THEN st' = "done" /\ UNCHANGED <<pieces, ns>>
      ELSE pieces' = Append(pieces, <<ns, n>>) /\ ns' = n + 1 /\ UNCHANGED st
   /\ UNCHANGED <<n, lim, le, lm, items, calls, dead>>
LimitNone == /\ st = "run" /\ Gate = "none" /\ st' = "done" /\ UNCHANGED <<n, lim, le, lm, ns, left, items, pieces, calls, dead>>

Next == (\E r \in LeafResults(le) : Search(r)) \/ Exhausted \/ Rest \/ LimitNone
Spec == Init /\ [][Next]_vars

\* ---------------- properties ----------------
\* C08: strictly increasing, never overlapping, never starting before the previous end
ItemsOrdered == Ordered(items)
\* C08: termination -- the number of searches is bounded by the text length
SearchesBounded == calls <= 2 * n + 3
\* C08: after an Err the Matches iterator is poisoned
ErrIsSticky == st = "err" => le = n + 1
\* C10: pieces so far are exactly the pieces between the matches consumed so far ...
PiecesSoFar == st # "err" =>
   LET full == RefSplit(items, n) IN
   /\ Len(pieces) <= Len(full)
   /\ \A j \in 1..Len(pieces) : pieces[j] = full[j] \/ (j = Len(pieces) /\ pieces[j] = <<full[j][1], n>>)
\* ... and when the iterator is finished: split = all of them, splitn(k) = first k-1 and the remainder, splitn(0) = nothing
FinalPieces == st = "done" =>
   IF lim < 0 THEN pieces = RefSplit(items, n)
   ELSE /\ Len(pieces) <= lim
        /\ (lim = 0 => pieces = <<>>)
        /\ (lim > 0 => /\ pieces # <<>> /\ pieces[Len(pieces)][2] = n
                       /\ \A j \in 1..(Len(pieces) - 1) : pieces[j] = RefSplit(items, n)[j]
                       /\ pieces[Len(pieces)][1] = RefSplit(items, n)[Len(pieces)][1])
\* C10: interleaving pieces and consumed matches rebuilds the text (adjacent spans tile 0..n)
Tiles == st = "done" /\ lim # 0 =>
   /\ pieces # <<>> /\ pieces[1][1] = 0 /\ pieces[Len(pieces)][2] = n
   /\ \A j \in 1..(Len(pieces) - 1) : j <= Len(items) /\ pieces[j][2] = items[j][1] /\ items[j][2] = pieces[j + 1][1]
=============================================================================
