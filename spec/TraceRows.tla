------------------------------ MODULE TraceRows ------------------------------
(***************************************************************************)
(* Trace validation of "rows" records (conformance layer L0).              *)
(*                                                                         *)
(* One record per pattern: the harness ran captures_from_pos of the REAL   *)
(* engine on every text of the space and every character-boundary offset,  *)
(* and logged one row  <<text index, byte offset, status, caps...>>  for    *)
(* every cell whose outcome was not "no match".  Here TLC enumerates the    *)
(* same texts and offsets itself, computes RefSem!Search for every cell    *)
(* and requires EXACTLY the logged rows.                                   *)
(*                                                                         *)
(* One TLC state per record (l = index of the next record).  Records are   *)
(* independent, so a rejected record is reported and validation goes on.   *)
(*   VH_MODE = "span"  compare overall span only      (C01)                *)
(*             "caps"  compare every group            (C02, C15, ...)      *)
(***************************************************************************)
EXTENDS Compile, VM, Json, IOUtils

Rec   == ndJsonDeserialize(IOEnv.VH_RECS)
Texts == LET T == ndJsonDeserialize(IOEnv.VH_TEXTS) IN [q \in 1..Len(T) |-> T[q].t]
Mode  == IOEnv.VH_MODE
Excl  == IOEnv.VH_EXCL      \* comma-less concatenation of finding ids to exclude, e.g. "F1"

Lemma == IOEnv.VH_LEMMA = "1"    \* also check the spec-level lemma Search(injected) = Search(base)
\* the AST whose MEANING the rows must have: the base pattern for injection records
SemAst(c) == IF "base" \in DOMAIN c THEN c.base ELSE c.ast
Excluded(ast) == Excl = "F1" /\ Excluded_F1(ast)

\* status codes of the harness
StMatch == 0

Trunc(row) == IF Mode = "span" /\ Len(row) > 5 THEN SubSeq(row, 1, 5) ELSE row

ExpectedRows(ast, ng) ==
   UNION { LET t == Texts[k]  o == Offs(t)
               f == TLCEval(SearchAll(ast, ng, t))
           IN { Trunc(<<k, o[p], StMatch>> \o CapsToBytes(t, f[p])) : p \in {q \in 0..Len(t) : f[q] # <<>>} }
           : k \in 1..Len(Texts) }

LoggedRows(c) == { Trunc(c.rows[j]) : j \in 1..Len(c.rows) }

(***************************************************************************)
(* Patterns of the class of a known finding (F1: nullable unbounded loops) *)
(* are NOT compared with RefSem -- that is the recorded finding -- but     *)
(* they are not left unjudged either: the real library must do on them     *)
(* exactly what the DESIGN MODEL does (Compile.tla program run by VM.tla,  *)
(* delegated pieces by RefSem), so that any OTHER deviation inside the     *)
(* class is still reported.  The model is run on the pattern that was      *)
(* actually compiled (c.ast), for every text and offset.                   *)
(***************************************************************************)
\* ... provided that no DELEGATED piece is itself of the class: what the regex crate does with captures inside a nullable loop is not
\* RefSem either (it is the same finding seen through the other engine), so such records stay unjudged
DesignJudgeable(ast, ng) == LET pr == Compile(ast, ng) IN
                            pr.err = "" /\ \A j \in 1..Len(pr.p) : pr.p[j].op = "Delegate" => ~Excluded_F1(pr.p[j].ast)
DesignRows(ast, ng) ==
   LET pr == TLCEval(Compile(ast, ng)) IN
   IF pr.err # "" THEN {<<0, 0, -8>>}          \* the model compiler refuses the pattern: nothing to compare (never equals a logged row set of an ok record)
   ELSE UNION { LET t == Texts[k]  o == Offs(t) IN
                UNION { LET env == [prog |-> pr.p, ns |-> pr.ns, t |-> t, pos |-> o[p], skip |-> FALSE, limit |-> 1000000, maxstack |-> 1000000]
                            fin == RunToEnd(InitState(env), env, 20000)
                        IN IF fin.st = "match" THEN {Trunc(<<k, o[p], StMatch>> \o SubSeq(fin.saves, 1, 2 * ng + 2))}
                           ELSE IF fin.st = "nomatch" THEN {}
                           ELSE {<<k, o[p], -9>>}       \* the model ran out of fuel / hit a limit: reported, never equal to a logged row
                        : p \in 0..Len(t) }
                : k \in 1..Len(Texts) }

VARIABLES l, nok, nrej, nexcl, ncerr, ncells, npos, ndes
vars == <<l, nok, nrej, nexcl, ncerr, ncells, npos, ndes>>
\* nexcl = records of a finding's class left unjudged; ndes = records of the class judged against the design model

Init == l = 1 /\ nok = 0 /\ nrej = 0 /\ nexcl = 0 /\ ncerr = 0 /\ ncells = 0 /\ npos = 0 /\ ndes = 0

RECURSIVE SumCells(_)
SumCells(k) == IF k = 0 THEN 0 ELSE Len(Texts[k]) + 1 + SumCells(k - 1)
CellsPerPattern == SumCells(Len(Texts))
Emit(tag, r) == PrintT("@@" \o tag \o " " \o ToJson(r))
Pick(S) == IF S = {} THEN <<>> ELSE CHOOSE x \in S : TRUE

TStep ==
   /\ l <= Len(Rec)
   /\ l' = l + 1
   /\ LET c == Rec[l] IN
      IF c.st # "ok"
      THEN /\ ncerr' = ncerr + 1 /\ UNCHANGED <<nok, nrej, nexcl, ncells, npos, ndes>>
           /\ Emit("CERR", [id |-> c.id, pat |-> c.pat, ek |-> c.ek])
      ELSE IF Excluded(SemAst(c)) /\ ~DesignJudgeable(c.ast, c.ng)
      THEN /\ nexcl' = nexcl + 1 /\ UNCHANGED <<nok, nrej, ncerr, ncells, npos, ndes>>
      ELSE IF Excluded(SemAst(c))
      THEN LET exp == TLCEval(DesignRows(c.ast, c.ng))
               log == TLCEval(LoggedRows(c))
           IN /\ ndes' = ndes + 1 /\ UNCHANGED <<nok, nexcl, ncerr, ncells, npos>>
              /\ IF exp = log THEN UNCHANGED nrej
                 ELSE /\ nrej' = nrej + 1
                      /\ Emit("REJECT", [id |-> c.id, pat |-> c.pat, ast |-> c.ast, base |-> c.ast, ng |-> c.ng, design |-> TRUE,
                                              expected_not_logged |-> Pick(exp \ log),
                                              logged_not_expected |-> Pick(log \ exp)])
      ELSE LET exp == TLCEval(ExpectedRows(SemAst(c), c.ng))
               log == TLCEval(LoggedRows(c))
           IN /\ ncells' = ncells + Cardinality(exp)
              /\ npos' = npos + (IF exp # {} THEN 1 ELSE 0)
              /\ UNCHANGED <<nexcl, ncerr, ndes>>
              /\ (Lemma /\ "base" \in DOMAIN c /\ ExpectedRows(c.ast, c.ng) # exp
                    => Emit("LEMMAFAIL", [id |-> c.id, pat |-> c.pat]))
              /\ (("toks" \in DOMAIN c /\ c.sametree /\ c.tree # c.tree0)
                    => Emit("TREEDIFF", [id |-> c.id, pat |-> c.pat, style |-> c.style]))
              /\ IF exp = log
                 THEN nok' = nok + 1 /\ UNCHANGED nrej
                 ELSE /\ nrej' = nrej + 1 /\ UNCHANGED nok
                      /\ Emit("REJECT", [id |-> c.id, pat |-> c.pat, ast |-> c.ast, base |-> SemAst(c), ng |-> c.ng,
                                              expected_not_logged |-> Pick(exp \ log),
                                              logged_not_expected |-> Pick(log \ exp)])

Done == /\ l = Len(Rec) + 1
        /\ l' = l + 1
        /\ Emit("STATS", [records |-> Len(Rec), ok |-> nok, rejected |-> nrej, excluded |-> nexcl, cerr |-> ncerr,
                           matching_cells |-> ncells, patterns_with_match |-> npos, cells_per_pattern |-> CellsPerPattern, design_judged |-> ndes])
        /\ UNCHANGED <<nok, nrej, nexcl, ncerr, ncells, npos, ndes>>

Next == TStep \/ Done
Spec == Init /\ [][Next]_vars
\* every line consumed: diameter = records + 2 (initial state, one per record, Done)
Consumed == TLCGet("stats").diameter = Len(Rec) + 2
=============================================================================
