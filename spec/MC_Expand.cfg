SPECIFICATION Spec
CONSTANT MaxLen = 3
INVARIANT RoundTrip
INVARIANT StepwiseIsExpansion
INVARIANT CheckSound
INVARIANT EscapeBorrowRule
INVARIANT CursorBounded
PROPERTY Progress
CHECK_DEADLOCK FALSE
