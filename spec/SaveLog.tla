------------------------------ MODULE SaveLog ------------------------------
(***************************************************************************)
(* State machine over SaveLogOps: the concrete undo log (vm.rs::State) and *)
(* the abstract whole-copy model are driven by the same operation; TLC     *)
(* checks the refinement for ALL operation sequences up to the bound.      *)
(***************************************************************************)
EXTENDS SaveLogOps

\* ---------- the state machine: both models driven by the same operation ----------
VARIABLES c, a, nops, hist
vars == <<c, a, nops, hist>>
view == <<c, a>>

Init == c = CInit /\ a = AInit /\ nops = 0 /\ hist = <<>>
Op(name, x, y) == nops' = nops + 1 /\ hist' = Append(hist, <<name, x, y>>)
Push  == /\ Len(c.stack) < MaxDepth /\ c' = CPush(c, nops + 10, nops) /\ a' = APush(a, nops + 10, nops) /\ Op("push", nops + 10, nops)
Pop   == /\ Len(c.stack) > 0 /\ c' = CPop(c) /\ a' = APop(a) /\ Op("pop", 0, 0)
Save(s, v) == /\ c' = CSave(c, s, v) /\ a' = ASave(a, s, v) /\ Op("save", s, v)
SPush(v) == /\ XDepth(c.saves) < MaxX /\ c' = CStackPush(c, v) /\ a' = AStackPush(a, v) /\ Op("spush", v, 0)
SPop  == /\ XDepth(c.saves) > 0 /\ c' = CStackPop(c) /\ a' = AStackPop(a) /\ Op("spop", 0, 0)
Cut(k) == /\ k <= Len(c.stack) /\ c' = CCut(c, k) /\ a' = ACut(a, k) /\ Op("cut", k, 0)
Next == \/ Push \/ Pop \/ SPop
        \/ \E s \in 0..(NSlots - 1), v \in Vals : Save(s, v)
        \/ \E v \in Vals : SPush(v)
        \/ \E k \in 0..Len(c.stack) : Cut(k)
Spec == Init /\ [][Next]_vars

Refines == RefinesAt(c, a)
LogWellFormed == DistinctPerBranch(c.oldsave, c.nsave, c.stack) /\ Len(c.oldsave) >= c.nsave + SumNs(c.stack, 1, Len(c.stack))
\* what a Pop returns and what the explicit stack returns agree in both models (action-level observables)
PopAgrees == Len(c.stack) > 0 => (LET b == c.stack[Len(c.stack)]  ab == a.stack[Len(a.stack)] IN b.pc = ab.pc /\ b.ix = ab.ix)
TopAgrees == XDepth(c.saves) > 0 => CStackTop(c) = AStackTop(a)
=============================================================================
