#!/bin/bash
# usage: ./runall.sh <seed> [tier] [ids...]   -- runs the registered checks one after the other and prints a summary
seed=${1:-0}; tier=${2:-quick}; shift; shift
ids=${@:-$(python3 -c "import json;print(' '.join(c['property_id'] for c in json.load(open('MANIFEST.json'))['checks']))")}
cd "$(dirname "$0")"
./check setup > /dev/null 2>&1 || echo "setup failed"
for id in $ids; do
  t0=$(date +%s)
  out=$(VERIF_SEED=$seed ./check $id --tier $tier 2>&1); rc=$?
  t1=$(date +%s)
  echo "== $id seed=$seed tier=$tier exit=$rc wall=$((t1-t0))s"
  echo "$out" | grep -E "^(VIOLATION|KNOWN-FINDING|TOOL-ERROR|OK|note)|^   pattern" | head -12
done
