//! `vh expand`: every template of a space x capture fixtures x both expanders x the public entry
//! points.  One record per template.
use crate::tok::{string2toks, toks2string};
use crate::util::{read_ndjson, Opts};
use fancy_regex::{Captures, Expander, Regex};
use serde_json::{json, Value};
use std::io::Write;
use std::panic::{catch_unwind, AssertUnwindSafe};

fn guard<F: FnOnce() -> String>(f: F) -> Value {
    match catch_unwind(AssertUnwindSafe(f)) {
        Ok(s) => json!(string2toks(&s)),
        Err(_) => json!(["PANIC"]),
    }
}

fn check_kind(r: &Result<(), fancy_regex::Error>) -> &'static str {
    use fancy_regex::{CompileError, Error};
    match r {
        Ok(()) => "ok",
        Err(Error::CompileError(CompileError::NamedBackrefOnly)) => "named_only",
        Err(Error::CompileError(CompileError::InvalidBackref)) => "invalid_backref",
        Err(Error::ParseError(..)) => "parse_error",
        Err(_) => "other",
    }
}

pub fn env_of(re: &Regex, caps: &Captures) -> Value {
    let txt: Vec<Value> = (0..caps.len())
        .map(|i| match caps.get(i) {
            Some(m) => json!(string2toks(m.as_str())),
            None => json!(["-none-"]),
        })
        .collect();
    let mut names: Vec<Value> = Vec::new();
    for (i, n) in re.capture_names().enumerate() {
        if let Some(n) = n {
            names.push(json!([string2toks(n), i]));
        }
    }
    json!({"n": caps.len(), "txt": txt, "names": names})
}

/// --templates F --fixtures F --out PREFIX --shards N
pub fn cmd_expand(o: &Opts) -> Result<(), String> {
    let tpls = read_ndjson(o.get("templates")?)?;
    let fixtures = read_ndjson(o.get("fixtures")?)?;
    let shards = o.num("shards", 1);
    let prefix = o.get("out")?;
    let mut files: Vec<std::io::BufWriter<std::fs::File>> = (0..shards)
        .map(|s| std::io::BufWriter::new(std::fs::File::create(format!("{}.{}.ndjson", prefix, s)).expect("create")))
        .collect();
    // fixtures: compile, search, log the environment actually captured (first record of every shard)
    let mut fx: Vec<(Regex, String)> = Vec::new();
    let mut envs: Vec<Value> = Vec::new();
    for f in &fixtures {
        let pat = toks2string(&f["pat"]);
        let text = toks2string(&f["text"]);
        let re = Regex::new(&pat).map_err(|e| format!("fixture {}: {:?}", pat, e))?;
        {
            let caps = re.captures(&text).map_err(|e| format!("{:?}", e))?.ok_or("fixture does not match")?;
            envs.push(env_of(&re, &caps));
        }
        fx.push((re, text));
    }
    for f in files.iter_mut() {
        writeln!(f, "{}", json!({"e": "fixtures", "envs": envs, "tpl": [], "outs": []})).map_err(|e| e.to_string())?;
    }
    for (i, t) in tpls.iter().enumerate() {
        let tpl = toks2string(&t["tpl"]);
        let mut outs: Vec<Value> = Vec::new();
        for (fi, (re, text)) in fx.iter().enumerate() {
            let caps = re.captures(text).unwrap().unwrap();
            for (di, dname) in ["dollar", "python"].iter().enumerate() {
                let mk = || if di == 0 { Expander::default() } else { Expander::python() };
                let e0 = guard(|| mk().expansion(&tpl, &caps));
                let e1 = guard(|| {
                    let mut dst = String::from("x");
                    mk().append_expansion(&mut dst, &tpl, &caps);
                    dst
                });
                let e2 = guard(|| {
                    let mut v: Vec<u8> = Vec::new();
                    mk().write_expansion(&mut v, &tpl, &caps).expect("io");
                    String::from_utf8(v).expect("utf8")
                });
                let e3 = guard(|| {
                    let mut v: Vec<u8> = Vec::new();
                    mk().write_expansion_vec(&mut v, &tpl, &caps).expect("fmt");
                    String::from_utf8(v).expect("utf8")
                });
                let (e4, e5) = if di == 0 {
                    (
                        guard(|| {
                            let mut dst = String::new();
                            caps.expand(&tpl, &mut dst);
                            dst
                        }),
                        guard(|| re.replace(text, tpl.as_str()).into_owned()),
                    )
                } else {
                    (json!(["NA"]), json!(["NA"]))
                };
                let chk = match catch_unwind(AssertUnwindSafe(|| mk().check(&tpl, re))) {
                    Ok(r) => check_kind(&r),
                    Err(_) => "PANIC",
                };
                let (esc, borrowed, back) = match catch_unwind(AssertUnwindSafe(|| {
                    let ex = mk();
                    let q = ex.escape(&tpl);
                    let b = matches!(q, std::borrow::Cow::Borrowed(_));
                    let back = ex.expansion(&q, &caps);
                    (string2toks(&q), b, string2toks(&back))
                })) {
                    Ok(x) => x,
                    Err(_) => (vec!["PANIC".to_string()], false, vec!["PANIC".to_string()]),
                };
                outs.push(json!({"f": fi + 1, "d": dname, "e": [e0, e1, e2, e3, e4, e5], "chk": chk,
                                 "esc": esc, "borrowed": borrowed, "back": back}));
            }
        }
        writeln!(files[i % shards], "{}", json!({"e": "tpl", "id": t["id"], "tpl": t["tpl"], "outs": outs, "envs": []})).map_err(|e| e.to_string())?;
    }
    Ok(())
}
