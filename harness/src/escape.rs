//! `vh escape`: fancy_regex::escape on every string of a space; the escaped string compiled alone
//! and inside host patterns (string-level prefix/suffix from the specification) and searched in the
//! haystacks the specification derives from the string.
use crate::tok::{string2toks, toks2string};
use crate::util::{j, read_ndjson, Opts};
use serde_json::json;
use std::borrow::Cow;
use std::io::Write;
use std::panic::{catch_unwind, AssertUnwindSafe};

pub fn cmd_escape(o: &Opts) -> Result<(), String> {
    let recs = read_ndjson(o.get("asts")?)?;
    let shards = o.num("shards", 1);
    let prefix = o.get("out")?;
    let mut files: Vec<std::io::BufWriter<std::fs::File>> = (0..shards)
        .map(|s| std::io::BufWriter::new(std::fs::File::create(format!("{}.{}.ndjson", prefix, s)).expect("create")))
        .collect();
    for (i, r) in recs.iter().enumerate() {
        let s = toks2string(&r["s"]);
        let esc = fancy_regex::escape(&s);
        let borrowed = matches!(esc, Cow::Borrowed(_));
        let hays: Vec<String> = r["hay"].as_array().unwrap().iter().map(toks2string).collect();
        let mut rows: Vec<Vec<i64>> = Vec::new();
        let mut cerr: Vec<i64> = Vec::new();
        for (h, host) in r["hosts"].as_array().unwrap().iter().enumerate() {
            let pat = format!("{}{}{}", toks2string(&host[0]), esc, toks2string(&host[1]));
            let re = match crate::rows::compile(&pat) {
                Ok(re) => re,
                Err(_) => {
                    cerr.push((h + 1) as i64);
                    continue;
                }
            };
            for (k, t) in hays.iter().enumerate() {
                match catch_unwind(AssertUnwindSafe(|| re.find(t))) {
                    Ok(Ok(None)) => {}
                    Ok(Ok(Some(m))) => rows.push(vec![(h + 1) as i64, (k + 1) as i64, 0, j(m.start()), j(m.end())]),
                    Ok(Err(e)) => rows.push(vec![(h + 1) as i64, (k + 1) as i64, crate::rows::run_status(&e), -1, -1]),
                    Err(_) => rows.push(vec![(h + 1) as i64, (k + 1) as i64, 3, -1, -1]),
                }
            }
        }
        for h in cerr {
            rows.push(vec![h, 0, 9, -1, -1]); // the host did not compile
        }
        writeln!(files[i % shards], "{}", json!({"id": r["id"], "s": r["s"], "esc": string2toks(&esc), "borrowed": borrowed, "rows": rows}))
            .map_err(|e| e.to_string())?;
    }
    Ok(())
}
