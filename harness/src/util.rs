use serde_json::Value;
use std::collections::HashMap;
use std::io::{BufRead, BufReader};

pub struct Opts(pub HashMap<String, String>);
impl Opts {
    pub fn parse(a: &[String]) -> Opts {
        let mut m = HashMap::new();
        let mut i = 0;
        while i < a.len() {
            let k = a[i].trim_start_matches("--").to_string();
            if i + 1 < a.len() && !a[i + 1].starts_with("--") {
                m.insert(k, a[i + 1].clone());
                i += 2;
            } else {
                m.insert(k, "1".into());
                i += 1;
            }
        }
        Opts(m)
    }
    pub fn get(&self, k: &str) -> Result<&str, String> {
        self.0.get(k).map(|s| s.as_str()).ok_or_else(|| format!("missing --{}", k))
    }
    pub fn get_or<'a>(&'a self, k: &str, d: &'a str) -> &'a str {
        self.0.get(k).map(|s| s.as_str()).unwrap_or(d)
    }
    pub fn num(&self, k: &str, d: usize) -> usize {
        self.0.get(k).map(|s| s.parse().expect("number")).unwrap_or(d)
    }
}

pub fn read_ndjson(path: &str) -> Result<Vec<Value>, String> {
    let f = std::fs::File::open(path).map_err(|e| format!("{}: {}", path, e))?;
    let mut v = Vec::new();
    for line in BufReader::new(f).lines() {
        let line = line.map_err(|e| e.to_string())?;
        if line.trim().is_empty() {
            continue;
        }
        v.push(serde_json::from_str(&line).map_err(|e| format!("{}: {}", path, e))?);
    }
    Ok(v)
}

/// byte offsets of all character boundaries of s (0..=len)
pub fn boundaries(s: &str) -> Vec<usize> {
    let mut v: Vec<usize> = s.char_indices().map(|(i, _)| i).collect();
    v.push(s.len());
    v
}

/// usize as a 32-bit-safe JSON integer (usize::MAX -> -1)
pub fn j(x: usize) -> i64 {
    if x == usize::MAX {
        -1
    } else if x > i32::MAX as usize {
        i32::MAX as i64
    } else {
        x as i64
    }
}
