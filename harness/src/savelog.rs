//! `vh savelog`: replay TLC-generated operation histories of SaveLog.tla into the real
//! `vm::State` (through the verification wrapper) and record what the code did after every
//! operation: [result1, result2, branch count, slot vector...].
use crate::util::{j, read_ndjson, Opts};
use fancy_regex::internal::verif::VerifState;
use serde_json::json;
use std::io::Write;
use std::panic::{catch_unwind, AssertUnwindSafe};

pub fn cmd_savelog(o: &Opts) -> Result<(), String> {
    let hists = read_ndjson(o.get("hists")?)?;
    let nslots = o.num("nslots", 2);
    let shards = o.num("shards", 1);
    let prefix = o.get("out")?;
    let mut files: Vec<std::io::BufWriter<std::fs::File>> = (0..shards)
        .map(|s| std::io::BufWriter::new(std::fs::File::create(format!("{}.{}.ndjson", prefix, s)).expect("create")))
        .collect();
    for (i, h) in hists.iter().enumerate() {
        let ops = h["h"].as_array().ok_or("history")?;
        let res = catch_unwind(AssertUnwindSafe(|| {
            let mut st = VerifState::new(nslots, 1_000_000);
            let mut obs: Vec<Vec<i64>> = Vec::new();
            for op in ops {
                let name = op[0].as_str().unwrap();
                let x = op[1].as_i64().unwrap() as usize;
                let y = op[2].as_i64().unwrap() as usize;
                let (r1, r2): (i64, i64) = match name {
                    "push" => (st.push(x, y) as i64, 0),
                    "pop" => match st.pop() {
                        Some((pc, ix)) => (j(pc), j(ix)),
                        None => (-9, -9),
                    },
                    "save" => {
                        st.save(x, y);
                        (0, 0)
                    }
                    "spush" => {
                        st.stack_push(x);
                        (0, 0)
                    }
                    "spop" => (j(st.stack_pop()), 0),
                    "cut" => {
                        st.backtrack_cut(x);
                        (0, 0)
                    }
                    _ => panic!("unknown op"),
                };
                let mut row = vec![r1, r2, st.backtrack_count() as i64];
                row.extend(st.saves().iter().map(|&v| j(v)));
                obs.push(row);
            }
            obs
        }));
        let rec = match res {
            Ok(obs) => json!({"id": i + 1, "h": h["h"], "st": "ok", "obs": obs}),
            Err(_) => json!({"id": i + 1, "h": h["h"], "st": "panic", "obs": []}),
        };
        writeln!(files[i % shards], "{}", rec).map_err(|e| e.to_string())?;
    }
    Ok(())
}
