//! `vh facts`: the per-node analysis results (hook) of every pattern of a space, in pre-order,
//! next to the tree the real parser produced (abstracted back into the specification's AST
//! format) and the outcome of Regex::new.
use crate::absx::abstract_expr;
use crate::astp::to_pattern;
use crate::rows::{ascii, err_kind};
use crate::util::{j, read_ndjson, Opts};
use fancy_regex::internal::analyze;
use fancy_regex::{wrap_tree, Expr};
use serde_json::{json, Value};
use std::io::Write;
use std::panic::{catch_unwind, AssertUnwindSafe};


pub fn cmd_facts(o: &Opts) -> Result<(), String> {
    let asts = read_ndjson(o.get("asts")?)?;
    let shards = o.num("shards", 1);
    let prefix = o.get("out")?;
    let mut files: Vec<std::io::BufWriter<std::fs::File>> = (0..shards)
        .map(|s| std::io::BufWriter::new(std::fs::File::create(format!("{}.{}.ndjson", prefix, s)).expect("create")))
        .collect();
    for (i, a) in asts.iter().enumerate() {
        let pat = to_pattern(&a["ast"]);
        let mut rec = a.clone();
        let m = rec.as_object_mut().unwrap();
        m.insert("pat".into(), json!(ascii(&pat)));
        let res = catch_unwind(AssertUnwindSafe(|| -> Result<(Value, Vec<Vec<i64>>), String> {
            let raw = Expr::parse_tree(&pat).map_err(|e| err_kind(&e))?;
            let mut g = 0;
            let parsed = abstract_expr(&raw.expr, &mut g);
            let tree = wrap_tree(raw);
            let info = analyze(&tree).map_err(|e| err_kind(&e))?;
            let facts: Vec<Vec<i64>> = fancy_regex::internal::verif_facts_preorder(&info)
                .into_iter()
                .map(|(min, cs, hard, g0, g1)| vec![j(min), cs as i64, hard as i64, g0 as i64, g1 as i64])
                .collect();
            Ok((parsed, facts))
        }));
        match res {
            Ok(Ok((parsed, facts))) => {
                m.insert("ast_st".into(), json!("ok"));
                m.insert("parsed".into(), parsed);
                m.insert("facts".into(), json!(facts));
            }
            Ok(Err(e)) => {
                m.insert("ast_st".into(), json!(e));
                m.insert("parsed".into(), json!({"k": "empty"}));
                m.insert("facts".into(), json!([]));
            }
            Err(_) => {
                m.insert("ast_st".into(), json!("PANIC"));
                m.insert("parsed".into(), json!({"k": "empty"}));
                m.insert("facts".into(), json!([]));
            }
        }
        match crate::rows::compile(&pat) {
            Ok(_) => {
                m.insert("st".into(), json!("ok"));
                m.insert("ek".into(), json!(""));
            }
            Err(ek) => {
                m.insert("st".into(), json!("cerr"));
                m.insert("ek".into(), json!(ek));
            }
        }
        writeln!(files[i % shards], "{}", rec).map_err(|e| e.to_string())?;
    }
    Ok(())
}
