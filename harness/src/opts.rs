//! `vh opts`: RegexBuilder options (C14).  "case" records: the same pattern built four ways and
//! run over all cells; one "size" record: size-limit fixtures from the specification.
use crate::astp::to_pattern;
use crate::rows::{ascii, load_texts, rows_for};
use crate::tok::toks2string;
use crate::util::{read_ndjson, Opts};
use fancy_regex::{Regex, RegexBuilder};
use serde_json::{json, Value};
use std::io::Write;
use std::panic::catch_unwind;

fn build<F: FnOnce() -> fancy_regex::Result<Regex> + std::panic::UnwindSafe>(f: F) -> Option<Regex> {
    match catch_unwind(f) {
        Ok(Ok(re)) => Some(re),
        _ => None,
    }
}

pub fn cmd_opts(o: &Opts) -> Result<(), String> {
    let asts = read_ndjson(o.get("asts")?)?;
    let texts = load_texts(o.get("texts")?)?;
    let shards = o.num("shards", 1);
    let prefix = o.get("out")?;
    let mut files: Vec<std::io::BufWriter<std::fs::File>> = (0..shards)
        .map(|s| std::io::BufWriter::new(std::fs::File::create(format!("{}.{}.ndjson", prefix, s)).expect("create")))
        .collect();
    for (i, a) in asts.iter().enumerate() {
        if a.get("pieces").is_some() {
            // size-limit fixtures
            let mut rows: Vec<Vec<i64>> = Vec::new();
            for (d, piece) in a["pieces"].as_array().unwrap().iter().enumerate() {
                for (h, host) in a["hosts"].as_array().unwrap().iter().enumerate() {
                    let pat = format!("{}{}{}", toks2string(&host[0]), toks2string(piece), toks2string(&host[1]));
                    for (li, lim) in a["limits"].as_array().unwrap().iter().enumerate() {
                        // an option combination: 0 = leave the default; dfafirst = set the DFA limit before the size limit
                        let size = lim["size"].as_u64().unwrap() as usize;
                        let dfa = lim["dfa"].as_u64().unwrap() as usize;
                        let dfafirst = lim["dfafirst"].as_bool().unwrap();
                        let ci = lim["ci"].as_u64().unwrap_or(0);
                        let p2 = pat.clone();
                        let re = build(move || {
                            let mut b = RegexBuilder::new(&p2);
                            if ci == 1 {
                                b.case_insensitive(true);
                            }
                            if dfafirst && dfa > 0 {
                                b.delegate_dfa_size_limit(dfa);
                            }
                            if size > 0 {
                                b.delegate_size_limit(size);
                            }
                            if !dfafirst && dfa > 0 {
                                b.delegate_dfa_size_limit(dfa);
                            }
                            if ci == 2 {
                                b.case_insensitive(true);
                            }
                            b.build()
                        });
                        rows.push(vec![(d + 1) as i64, (h + 1) as i64, (li + 1) as i64, re.is_some() as i64]);
                    }
                }
            }
            writeln!(files[i % shards], "{}", json!({"e": "size", "rows": rows})).map_err(|e| e.to_string())?;
            continue;
        }
        let pat = to_pattern(&a["ast"]);
        let mut rec = a.clone();
        let m = rec.as_object_mut().unwrap();
        m.insert("e".into(), json!("case"));
        m.insert("pat".into(), json!(ascii(&pat)));
        let (p1, p2, p3, p4) = (pat.clone(), format!("(?i){}", pat), pat.clone(), pat.clone());
        let ra = build(move || RegexBuilder::new(&p1).case_insensitive(true).build());
        let rb = build(move || Regex::new(&p2));
        let rc = build(move || RegexBuilder::new(&p3).build());
        let rd = build(move || RegexBuilder::new(&p4).case_insensitive(false).build());
        let empty: Vec<Vec<i64>> = vec![];
        match (ra, rb, rc, rd) {
            (Some(ra), Some(rb), Some(rc), Some(rd)) => {
                m.insert("st".into(), json!("ok"));
                m.insert("A".into(), json!(rows_for(&ra, &texts)));
                m.insert("B".into(), json!(rows_for(&rb, &texts)));
                m.insert("C".into(), json!(rows_for(&rc, &texts)));
                m.insert("D".into(), json!(rows_for(&rd, &texts)));
            }
            (a_, b_, c_, d_) => {
                // some spelling did not compile: log which (TLC treats a mixed outcome as a rejection)
                let all_fail = a_.is_none() && b_.is_none() && c_.is_none() && d_.is_none();
                m.insert("st".into(), json!(if all_fail { "cerr" } else { "mixed" }));
                for k in ["A", "B", "C", "D"] {
                    m.insert(k.into(), json!(empty));
                }
            }
        }
        let _: &Value = &rec;
        writeln!(files[i % shards], "{}", rec).map_err(|e| e.to_string())?;
    }
    Ok(())
}
