//! `vh parse`: Expr::parse_tree on every input of a space; the outcome (concrete tree, named groups,
//! or error kind + position) is recorded in the node format of spec/Parse.tla, next to the
//! pattern as a sequence of characters.
use crate::compilec::build_input;
use crate::util::{j, read_ndjson, Opts};
use fancy_regex::{Assertion, Expr, LookAround};
use serde_json::{json, Value};
use std::io::Write;
use std::panic::catch_unwind;

pub fn ctok(c: char) -> String {
    match c {
        '\u{e9}' => "@E".into(),
        '\u{c9}' => "@Z".into(),
        '\u{3042}' => "@T".into(),
        '\u{e01}' => "@K".into(),
        '\u{1F600}' => "@Q".into(),
        '\n' | '\r' | '\t' => c.to_string(),
        c if (' '..='~').contains(&c) => c.to_string(),
        c => format!("<x{:x}>", c as u32),
    }
}
fn ctoks(s: &str) -> Vec<String> {
    s.chars().map(ctok).collect()
}
fn num(x: usize) -> i64 {
    if x == usize::MAX {
        -1
    } else if x > 1_000_000_000 {
        -2
    } else {
        x as i64
    }
}

pub fn etree(e: &Expr) -> Value {
    match e {
        Expr::Empty => json!({"k": "Empty"}),
        Expr::Any { newline } => json!({"k": "Any", "nl": newline}),
        Expr::Assertion(a) => {
            let n = match a {
                Assertion::StartText => "StartText",
                Assertion::EndText => "EndText",
                Assertion::StartLine { crlf: false } => "StartLine",
                Assertion::EndLine { crlf: false } => "EndLine",
                Assertion::StartLine { crlf: true } => "StartLineCrlf",
                Assertion::EndLine { crlf: true } => "EndLineCrlf",
                Assertion::LeftWordBoundary => "LeftWordBoundary",
                Assertion::RightWordBoundary => "RightWordBoundary",
                Assertion::WordBoundary => "WordBoundary",
                Assertion::NotWordBoundary => "NotWordBoundary",
            };
            json!({"k": "Assert", "a": n})
        }
        Expr::Literal { val, casei } => {
            let t = ctoks(val);
            if t.len() == 1 {
                json!({"k": "Lit", "c": t[0], "ci": casei})
            } else {
                json!({"k": "LitN", "c": t, "ci": casei})
            }
        }
        Expr::Concat(v) => json!({"k": "Concat", "xs": v.iter().map(etree).collect::<Vec<_>>()}),
        Expr::Alt(v) => json!({"k": "Alt", "xs": v.iter().map(etree).collect::<Vec<_>>()}),
        Expr::Group(x) => json!({"k": "Group", "x": etree(x)}),
        Expr::LookAround(x, la) => {
            let n = match la {
                LookAround::LookAhead => "LA",
                LookAround::LookAheadNeg => "LAN",
                LookAround::LookBehind => "LB",
                LookAround::LookBehindNeg => "LBN",
            };
            json!({"k": "Look", "la": n, "x": etree(x)})
        }
        Expr::Repeat { child, lo, hi, greedy } => json!({"k": "Repeat", "x": etree(child), "lo": num(*lo), "hi": num(*hi), "g": greedy}),
        Expr::Delegate { inner, size, casei } => json!({"k": "Delegate", "inner": ctoks(inner), "size": j(*size), "ci": casei}),
        Expr::Backref(n) => json!({"k": "Backref", "n": num(*n)}),
        Expr::AtomicGroup(x) => json!({"k": "Atomic", "x": etree(x)}),
        Expr::KeepOut => json!({"k": "KeepOut"}),
        Expr::ContinueFromPreviousMatchEnd => json!({"k": "Cont"}),
        Expr::BackrefExistsCondition(n) => json!({"k": "BexCond", "n": num(*n)}),
        Expr::Conditional { condition, true_branch, false_branch } => {
            json!({"k": "Cond", "c": etree(condition), "y": etree(true_branch), "n": etree(false_branch)})
        }
        Expr::SubroutineCall(n) => json!({"k": "Subr", "n": num(*n)}),
    }
}

pub fn cmd_parse(o: &Opts) -> Result<(), String> {
    let recs = read_ndjson(o.get("inputs")?)?;
    let shards = o.num("shards", 1);
    let prefix = o.get("out")?;
    let mut files: Vec<std::io::BufWriter<std::fs::File>> = (0..shards)
        .map(|s| std::io::BufWriter::new(std::fs::File::create(format!("{}.{}.ndjson", prefix, s)).expect("create")))
        .collect();
    for (i, r) in recs.iter().enumerate() {
        let pat = build_input(r);
        let chars = ctoks(&pat);
        // spelling records (C19) carry the base AST: the plain spelling's characters go along for the model-level tree lemma
        let chars0: Vec<String> = match r.get("base") {
            Some(b) if b.is_object() => ctoks(&crate::astp::to_pattern(b)),
            _ => Vec::new(),
        };
        let sametree = r.get("sametree").and_then(|v| v.as_bool()).unwrap_or(false);
        let p2 = pat.clone();
        let res = catch_unwind(move || Expr::parse_tree(&p2));
        let rec = match res {
            Ok(Ok(tree)) => {
                let mut names: Vec<(Vec<String>, usize)> = tree.named_groups.iter().map(|(k, v)| (ctoks(k), *v)).collect();
                names.sort();
                let brefs: Vec<usize> = tree.backrefs.iter().collect();
                json!({"id": r["id"], "chars": chars, "chars0": chars0, "sametree": sametree, "st": "ok", "tree": etree(&tree.expr), "names": names, "brefs": brefs, "kind": "", "pos": -1})
            }
            Ok(Err(fancy_regex::Error::ParseError(pos, e))) => {
                let k = format!("{:?}", e);
                let k: String = k.chars().take_while(|c| c.is_ascii_alphanumeric()).collect();
                json!({"id": r["id"], "chars": chars, "chars0": chars0, "sametree": sametree, "st": "err", "tree": {"k": "Empty"}, "names": [], "brefs": [], "kind": k, "pos": pos.min(i32::MAX as usize)})
            }
            Ok(Err(fancy_regex::Error::CompileError(e))) => {
                let k = format!("{:?}", e);
                let k: String = k.chars().take_while(|c| c.is_ascii_alphanumeric()).collect();
                json!({"id": r["id"], "chars": chars, "chars0": chars0, "sametree": sametree, "st": "err", "tree": {"k": "Empty"}, "names": [], "brefs": [], "kind": k, "pos": -1})
            }
            Ok(Err(_)) => json!({"id": r["id"], "chars": chars, "chars0": chars0, "sametree": sametree, "st": "err", "tree": {"k": "Empty"}, "names": [], "brefs": [], "kind": "Other", "pos": -1}),
            Err(_) => json!({"id": r["id"], "chars": chars, "chars0": chars0, "sametree": sametree, "st": "panic", "tree": {"k": "Empty"}, "names": [], "brefs": [], "kind": "", "pos": -1}),
        };
        writeln!(files[i % shards], "{}", rec).map_err(|e| e.to_string())?;
    }
    Ok(())
}
