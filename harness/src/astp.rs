//! AST (JSON, the format of spec/Ast.tla) -> concrete pattern text.  This is the harness' printer;
//! its output is cross-checked by re-parsing (see `abstract_expr`).
use crate::tok::tok2char;
use serde_json::Value;

fn push_lit_char(out: &mut String, c: char, in_class: bool) {
    match c {
        '\n' => out.push_str("\\n"),
        '\r' => out.push_str("\\r"),
        ' ' => out.push_str("\\ "),
        '-' if in_class => out.push_str("\\-"),
        '\\' | '.' | '+' | '*' | '?' | '(' | ')' | '|' | '[' | ']' | '{' | '}' | '^' | '$' | '#' | '&' | '~' => {
            out.push('\\');
            out.push(c)
        }
        c => out.push(c),
    }
}

fn s<'a>(e: &'a Value, f: &str) -> &'a str {
    e[f].as_str().unwrap_or_else(|| panic!("field {} missing in {}", f, e))
}
fn b(e: &Value, f: &str) -> bool {
    e[f].as_bool().unwrap_or_else(|| panic!("field {} missing in {}", f, e))
}
fn n(e: &Value, f: &str) -> i64 {
    e[f].as_i64().unwrap_or_else(|| panic!("field {} missing in {}", f, e))
}

fn is_named(e: &Value) -> bool {
    e.get("named").and_then(|v| v.as_bool()).unwrap_or(false)
}
/// the name of named group n: x followed by n ones
pub fn gname(n: i64) -> String {
    let mut s = String::from("x");
    for _ in 0..n {
        s.push('1')
    }
    s
}

/// prec: 0 = alternation allowed bare, 1 = concatenation allowed bare, 2 = must be an atom
#[derive(Clone, Copy, Default)]
pub struct PrintOpt {
    /// the pattern is prefixed with (?U): every quantifier's laziness mark is inverted
    pub swap_greed: bool,
    /// the pattern is prefixed with (?x): insignificant white space is sprinkled between pieces
    pub spaces: bool,
}

pub fn print(e: &Value, prec: u8, out: &mut String) {
    print_o(e, prec, out, &PrintOpt::default())
}

pub fn print_o(e: &Value, prec: u8, out: &mut String, o: &PrintOpt) {
    let k = s(e, "k");
    match k {
        "empty" => {
            if prec >= 2 {
                out.push_str("(?:)")
            }
        }
        "lit" => {
            let ci = e.get("ci").and_then(|v| v.as_bool()).unwrap_or(false);
            let cs = e.get("cs").and_then(|v| v.as_bool()).unwrap_or(false);
            if ci {
                out.push_str("(?i:")
            } else if cs {
                out.push_str("(?-i:")
            }
            push_lit_char(out, tok2char(s(e, "c")), false);
            if ci || cs {
                out.push(')')
            }
        }
        "any" => out.push_str(if b(e, "nl") { "(?s:.)" } else { "." }),
        "class" => {
            let ci = e.get("ci").and_then(|v| v.as_bool()).unwrap_or(false);
            if ci {
                out.push_str("(?i:")
            }
            out.push('[');
            if b(e, "neg") {
                out.push('^')
            }
            for t in e["set"].as_array().unwrap() {
                push_lit_char(out, tok2char(t.as_str().unwrap()), true)
            }
            out.push(']');
            if ci {
                out.push(')')
            }
        }
        "cat" => {
            if prec >= 2 {
                out.push_str("(?:")
            }
            for x in e["xs"].as_array().unwrap() {
                print_o(x, 1, out, o);
                if o.spaces {
                    out.push(' ')
                }
            }
            if prec >= 2 {
                out.push(')')
            }
        }
        "alt" => {
            if prec >= 1 {
                out.push_str("(?:")
            }
            for (i, x) in e["xs"].as_array().unwrap().iter().enumerate() {
                if i > 0 {
                    out.push_str(if o.spaces { " |\n " } else { "|" })
                }
                print_o(x, 1, out, o)
            }
            if prec >= 1 {
                out.push(')')
            }
        }
        "rep" => {
            out.push_str("(?:");
            print_o(&e["x"], 0, out, o);
            out.push(')');
            let (lo, hi) = (n(e, "lo"), n(e, "hi"));
            match (lo, hi) {
                (0, 1) => out.push('?'),
                (0, -1) => out.push('*'),
                (1, -1) => out.push('+'),
                (lo, -1) => out.push_str(&format!("{{{},}}", lo)),
                (lo, hi) if lo == hi => out.push_str(&format!("{{{}}}", lo)),
                (lo, hi) => out.push_str(&format!("{{{},{}}}", lo, hi)),
            }
            if b(e, "g") == o.swap_greed {
                out.push('?')
            }
        }
        "grp" => {
            // a named group is always called x1, x11, x111, ... (x followed by n ones), so that printer and
            // specification derive the name from the group number
            if is_named(e) {
                out.push_str(&format!("(?<{}>", gname(n(e, "n"))))
            } else {
                out.push('(')
            }
            print_o(&e["x"], 0, out, o);
            out.push(')')
        }
        "atom" => {
            out.push_str("(?>");
            print_o(&e["x"], 0, out, o);
            out.push(')')
        }
        "look" => {
            out.push_str(if b(e, "neg") { "(?!" } else { "(?=" });
            print_o(&e["x"], 0, out, o);
            out.push(')')
        }
        "lookb" => {
            out.push_str(if b(e, "neg") { "(?<!" } else { "(?<=" });
            print_o(&e["x"], 0, out, o);
            out.push(')')
        }
        "bref" => {
            if is_named(e) {
                out.push_str(&format!("\\k<{}>", gname(n(e, "n"))))
            } else {
                out.push_str(&format!("(?:\\{})", n(e, "n")))
            }
        }
        "bex" => {
            if is_named(e) {
                out.push_str(&format!("(?(<{}>))", gname(n(e, "n"))))
            } else {
                out.push_str(&format!("(?({}))", n(e, "n")))
            }
        }
        "cond" => {
            out.push_str("(?(");
            let c = &e["c"];
            if s(c, "k") == "bex" {
                if is_named(c) {
                    out.push_str(&format!("<{}>", gname(n(c, "n"))))
                } else {
                    out.push_str(&format!("{}", n(c, "n")))
                }
            } else if matches!(s(c, "k"), "look" | "lookb") {
                print_o(c, 0, out, o)
            } else {
                out.push_str("(?:");
                print_o(c, 0, out, o);
                out.push(')')
            }
            out.push(')');
            print_o(&e["y"], 1, out, o);
            if s(&e["n"], "k") != "empty" {
                out.push('|');
                print_o(&e["n"], 1, out, o)
            }
            out.push(')')
        }
        "keep" => out.push_str("\\K"),
        "cont" => out.push_str("\\G"),
        "bol" => out.push('^'),
        "eol" => out.push('$'),
        "mbol" => out.push_str("(?m:^)"),
        "meol" => out.push_str("(?m:$)"),
        "wb" => out.push_str("\\b"),
        "nwb" => out.push_str("\\B"),
        "lwb" => out.push_str("\\<"),
        "rwb" => out.push_str("\\>"),
        "eolz" => out.push_str("\\Z"),
        k => panic!("unknown AST kind {}", k),
    }
}

pub fn to_pattern(e: &Value) -> String {
    let mut out = String::new();
    print(e, 0, &mut out);
    out
}

/// spelling variants used by the regex-crate differential: "" plain, "U" = (?U) + swapped laziness
/// marks, "x" = (?x) + free spacing
pub fn to_pattern_variant(e: &Value, variant: &str) -> String {
    let mut out = String::new();
    match variant {
        "U" => {
            out.push_str("(?U)");
            print_o(e, 0, &mut out, &PrintOpt { swap_greed: true, spaces: false })
        }
        "x" => {
            out.push_str("(?x) ");
            print_o(e, 0, &mut out, &PrintOpt { swap_greed: false, spaces: true })
        }
        _ => print(e, 0, &mut out),
    }
    out
}
