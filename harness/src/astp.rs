//! AST (JSON, the format of spec/Ast.tla) -> concrete pattern text.  This is the harness' printer;
//! its output is cross-checked by re-parsing (see `abstract_expr`).
use crate::tok::tok2char;
use serde_json::Value;

fn push_lit_char(out: &mut String, c: char, in_class: bool) {
    match c {
        '\n' => out.push_str("\\n"),
        '\r' => out.push_str("\\r"),
        ' ' => out.push_str("\\ "),
        '-' if in_class => out.push_str("\\-"),
        '\\' | '.' | '+' | '*' | '?' | '(' | ')' | '|' | '[' | ']' | '{' | '}' | '^' | '$' | '#' | '&' | '~' => {
            out.push('\\');
            out.push(c)
        }
        c => out.push(c),
    }
}

fn s<'a>(e: &'a Value, f: &str) -> &'a str {
    e[f].as_str().unwrap_or_else(|| panic!("field {} missing in {}", f, e))
}
fn b(e: &Value, f: &str) -> bool {
    e[f].as_bool().unwrap_or_else(|| panic!("field {} missing in {}", f, e))
}
fn n(e: &Value, f: &str) -> i64 {
    e[f].as_i64().unwrap_or_else(|| panic!("field {} missing in {}", f, e))
}

/// prec: 0 = alternation allowed bare, 1 = concatenation allowed bare, 2 = must be an atom
pub fn print(e: &Value, prec: u8, out: &mut String) {
    let k = s(e, "k");
    match k {
        "empty" => {
            if prec >= 2 {
                out.push_str("(?:)")
            }
        }
        "lit" => {
            let ci = e.get("ci").and_then(|v| v.as_bool()).unwrap_or(false);
            if ci {
                out.push_str("(?i:")
            }
            push_lit_char(out, tok2char(s(e, "c")), false);
            if ci {
                out.push(')')
            }
        }
        "any" => out.push_str(if b(e, "nl") { "(?s:.)" } else { "." }),
        "class" => {
            let ci = e.get("ci").and_then(|v| v.as_bool()).unwrap_or(false);
            if ci {
                out.push_str("(?i:")
            }
            out.push('[');
            if b(e, "neg") {
                out.push('^')
            }
            for t in e["set"].as_array().unwrap() {
                push_lit_char(out, tok2char(t.as_str().unwrap()), true)
            }
            out.push(']');
            if ci {
                out.push(')')
            }
        }
        "cat" => {
            if prec >= 2 {
                out.push_str("(?:")
            }
            for x in e["xs"].as_array().unwrap() {
                print(x, 1, out)
            }
            if prec >= 2 {
                out.push(')')
            }
        }
        "alt" => {
            if prec >= 1 {
                out.push_str("(?:")
            }
            for (i, x) in e["xs"].as_array().unwrap().iter().enumerate() {
                if i > 0 {
                    out.push('|')
                }
                print(x, 1, out)
            }
            if prec >= 1 {
                out.push(')')
            }
        }
        "rep" => {
            out.push_str("(?:");
            print(&e["x"], 0, out);
            out.push(')');
            let (lo, hi) = (n(e, "lo"), n(e, "hi"));
            match (lo, hi) {
                (0, 1) => out.push('?'),
                (0, -1) => out.push('*'),
                (1, -1) => out.push('+'),
                (lo, -1) => out.push_str(&format!("{{{},}}", lo)),
                (lo, hi) if lo == hi => out.push_str(&format!("{{{}}}", lo)),
                (lo, hi) => out.push_str(&format!("{{{},{}}}", lo, hi)),
            }
            if !b(e, "g") {
                out.push('?')
            }
        }
        "grp" => {
            // a named group is always called x1, x11, x111, ... (x followed by n ones), so that printer and
            // specification derive the name from the group number
            if e.get("named").and_then(|v| v.as_bool()).unwrap_or(false) {
                out.push_str("(?<x");
                for _ in 0..n(e, "n") {
                    out.push('1')
                }
                out.push('>')
            } else {
                out.push('(')
            }
            print(&e["x"], 0, out);
            out.push(')')
        }
        "atom" => {
            out.push_str("(?>");
            print(&e["x"], 0, out);
            out.push(')')
        }
        "look" => {
            out.push_str(if b(e, "neg") { "(?!" } else { "(?=" });
            print(&e["x"], 0, out);
            out.push(')')
        }
        "lookb" => {
            out.push_str(if b(e, "neg") { "(?<!" } else { "(?<=" });
            print(&e["x"], 0, out);
            out.push(')')
        }
        "bref" => out.push_str(&format!("(?:\\{})", n(e, "n"))),
        "bex" => out.push_str(&format!("(?({}))", n(e, "n"))),
        "cond" => {
            out.push_str("(?(");
            let c = &e["c"];
            if s(c, "k") == "bex" {
                out.push_str(&format!("{}", n(c, "n")))
            } else if matches!(s(c, "k"), "look" | "lookb") {
                print(c, 0, out)
            } else {
                out.push_str("(?:");
                print(c, 0, out);
                out.push(')')
            }
            out.push(')');
            print(&e["y"], 1, out);
            if s(&e["n"], "k") != "empty" {
                out.push('|');
                print(&e["n"], 1, out)
            }
            out.push(')')
        }
        "keep" => out.push_str("\\K"),
        "cont" => out.push_str("\\G"),
        "bol" => out.push('^'),
        "eol" => out.push('$'),
        "mbol" => out.push_str("(?m:^)"),
        "meol" => out.push_str("(?m:$)"),
        "wb" => out.push_str("\\b"),
        "nwb" => out.push_str("\\B"),
        "lwb" => out.push_str("\\<"),
        "rwb" => out.push_str("\\>"),
        "eolz" => out.push_str("\\Z"),
        k => panic!("unknown AST kind {}", k),
    }
}

pub fn to_pattern(e: &Value) -> String {
    let mut out = String::new();
    print(e, 0, &mut out);
    out
}
