//! `vh compile`: Regex::new on every input of a space (C06).  Meant to be run from a debug build
//! (arithmetic overflow checks on) inside a resource-limited child process: one output line per
//! input, flushed at once, so that the parent can tell which input killed the process.
use crate::rows::ascii;
use crate::util::{read_ndjson, Opts};
use serde_json::json;
use std::io::Write;
use std::panic::catch_unwind;

pub fn build_input(r: &serde_json::Value) -> String {
    let frag = |t: &str| -> String {
        match t.strip_prefix('@') {
            Some(tok) if !tok.is_empty() => crate::tok::tok2char(tok).to_string(),
            _ => t.to_string(),
        }
    };
    if let Some(raw) = r.get("raw").and_then(|v| v.as_str()) {
        return raw.to_string();
    }
    if let Some(amp) = r.get("amp").and_then(|v| v.as_array()) {
        let k = r["k"].as_u64().unwrap() as usize;
        let (o, b, c) = (frag(amp[0].as_str().unwrap()), frag(amp[1].as_str().unwrap()), frag(amp[2].as_str().unwrap()));
        let mut s = String::with_capacity(k * (o.len() + c.len()) + b.len());
        for _ in 0..k {
            s.push_str(&o)
        }
        s.push_str(&b);
        for _ in 0..k {
            s.push_str(&c)
        }
        return s;
    }
    r["toks"].as_array().expect("toks").iter().map(|t| frag(t.as_str().unwrap())).collect()
}

pub fn cmd_compile(o: &Opts) -> Result<(), String> {
    let recs = read_ndjson(o.get("inputs")?)?;
    let from = o.num("from", 0);
    let out = std::io::stdout();
    let mut out = out.lock();
    for (i, r) in recs.iter().enumerate().skip(from) {
        let pat = build_input(r);
        let len = pat.len();
        let what: String = ascii(&pat).chars().take(60).collect();
        let t0 = std::time::Instant::now();
        let p2 = pat.clone();
        let res = catch_unwind(move || fancy_regex::Regex::new(&p2).map(|_| ()));
        let ms = t0.elapsed().as_millis() as i64;
        let (st, pos, ek) = match res {
            Ok(Ok(())) => ("ok", -1i64, String::new()),
            Ok(Err(fancy_regex::Error::ParseError(pos, e))) => ("err", pos as i64, format!("{:?}", e).chars().filter(|c| c.is_ascii_alphanumeric()).take(40).collect()),
            Ok(Err(e)) => ("err", -1, crate::rows::err_kind(&e).chars().take(60).collect()),
            Err(_) => ("panic", -1, String::new()),
        };
        writeln!(out, "{}", json!({"id": r["id"], "ix": i, "what": what, "st": st, "pos": pos.min(i32::MAX as i64), "len": len.min(i32::MAX as usize), "ms": ms, "ek": ek}))
            .map_err(|e| e.to_string())?;
        out.flush().map_err(|e| e.to_string())?;
    }
    Ok(())
}
