//! `vh tostr`: for every input pattern, every subtree of the real parse tree in pre-order together with
//! what `Expr::to_str` prints for it at precedences 0..3 (or "hard" when it panics: hard expressions are
//! outside its domain).  `vh probe --pat P [--text T]`: ad-hoc diagnosis of one pattern.
use crate::compilec::build_input;
use crate::parsec::{ctok, etree};
use crate::util::{read_ndjson, Opts};
use fancy_regex::{Expr, Regex};
use serde_json::{json, Value};
use std::io::Write;
use std::panic::{catch_unwind, AssertUnwindSafe};

fn kids(e: &Expr) -> Vec<&Expr> {
    match e {
        Expr::Concat(v) | Expr::Alt(v) => v.iter().collect(),
        Expr::Group(x) | Expr::LookAround(x, _) | Expr::AtomicGroup(x) => vec![x],
        Expr::Repeat { child, .. } => vec![child],
        Expr::Conditional { condition, true_branch, false_branch } => vec![condition, true_branch, false_branch],
        _ => vec![],
    }
}
fn preorder<'a>(e: &'a Expr, out: &mut Vec<&'a Expr>) {
    out.push(e);
    for k in kids(e) {
        preorder(k, out)
    }
}
fn printed(e: &Expr, prec: u8) -> Value {
    match catch_unwind(AssertUnwindSafe(|| {
        let mut s = String::new();
        e.to_str(&mut s, prec);
        s
    })) {
        Ok(s) => json!(s.chars().map(ctok).collect::<Vec<_>>()),
        Err(_) => json!(["<hard>"]),
    }
}

pub fn cmd_tostr(o: &Opts) -> Result<(), String> {
    let recs = read_ndjson(o.get("inputs")?)?;
    let shards = o.num("shards", 1);
    let prefix = o.get("out")?;
    let mut files: Vec<std::io::BufWriter<std::fs::File>> = (0..shards)
        .map(|s| std::io::BufWriter::new(std::fs::File::create(format!("{}.{}.ndjson", prefix, s)).expect("create")))
        .collect();
    for (i, r) in recs.iter().enumerate() {
        let pat = build_input(r);
        let chars: Vec<String> = pat.chars().map(ctok).collect();
        let rec = match Expr::parse_tree(&pat) {
            Ok(tree) => {
                let mut subs = Vec::new();
                preorder(&tree.expr, &mut subs);
                let prints: Vec<Value> = subs.iter().map(|e| json!([printed(e, 0), printed(e, 1), printed(e, 2), printed(e, 3)])).collect();
                json!({"id": r["id"], "chars": chars, "st": "ok", "tree": etree(&tree.expr), "prints": prints})
            }
            Err(_) => json!({"id": r["id"], "chars": chars, "st": "err", "tree": {"k": "Empty"}, "prints": []}),
        };
        writeln!(files[i % shards], "{}", rec).map_err(|e| e.to_string())?;
    }
    Ok(())
}

pub fn cmd_probe(o: &Opts) -> Result<(), String> {
    let pat = o.get("pat")?;
    let text = o.get_or("text", "");
    match Expr::parse_tree(pat) {
        Ok(t) => {
            println!("tree: {:?}", t.expr);
            for p in 0..4 {
                println!("to_str({}): {}", p, printed(&t.expr, p));
            }
        }
        Err(e) => println!("parse error: {:?}", e),
    }
    match Regex::new(pat) {
        Ok(re) => {
            println!("regex: {:?}", re);
            println!("captures: {:?}", catch_unwind(AssertUnwindSafe(|| re.captures(text).map(|c| c.map(|c| (0..c.len()).map(|i| c.get(i).map(|m| (m.start(), m.end()))).collect::<Vec<_>>())))));
        }
        Err(e) => println!("Regex::new error: {:?}", e),
    }
    Ok(())
}
