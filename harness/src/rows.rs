//! `vh rows`: for every pattern of an exported space and every (text, offset) cell, record the
//! outcome of `captures_from_pos`.  Only cells with a result other than "no match" are logged.
use crate::absx::{abstract_expr, normalize};
use crate::astp::to_pattern;
use crate::tok::toks2string;
use crate::util::{boundaries, j, read_ndjson, Opts};
use serde_json::{json, Value};
use std::io::Write;
use std::panic::{catch_unwind, AssertUnwindSafe};

pub const ST_MATCH: i64 = 0;
pub const ST_ERR_LIMIT: i64 = 1;
pub const ST_ERR_STACK: i64 = 2;
pub const ST_PANIC: i64 = 3;
pub const ST_ERR_OTHER: i64 = 5;

pub fn err_kind(e: &fancy_regex::Error) -> String {
    let s = format!("{:?}", e);
    // e.g. CompileError(LookBehindNotConst) / ParseError(3, TargetNotRepeatable)
    let s = s.replace(|c: char| !(c.is_ascii_alphanumeric() || c == '(' || c == ')' || c == ',' || c == ' ' || c == '_'), "?");
    s.chars().take(120).collect()
}

pub fn run_status(e: &fancy_regex::Error) -> i64 {
    match e {
        fancy_regex::Error::RuntimeError(fancy_regex::RuntimeError::BacktrackLimitExceeded) => ST_ERR_LIMIT,
        fancy_regex::Error::RuntimeError(fancy_regex::RuntimeError::StackOverflow) => ST_ERR_STACK,
        _ => ST_ERR_OTHER,
    }
}

pub fn compile(pat: &str) -> Result<fancy_regex::Regex, String> {
    match catch_unwind(|| fancy_regex::Regex::new(pat)) {
        Ok(Ok(re)) => Ok(re),
        Ok(Err(e)) => Err(err_kind(&e)),
        Err(_) => Err("PANIC".into()),
    }
}

/// does print(ast) parse back to ast (modulo normalisation)?
pub fn roundtrip_ok(ast: &Value, pat: &str) -> bool {
    match catch_unwind(|| fancy_regex::Expr::parse_tree(pat)) {
        Ok(Ok(tree)) => {
            let mut g = 0;
            normalize(&abstract_expr(&tree.expr, &mut g)) == normalize(ast)
        }
        _ => false,
    }
}

/// hash (31 bits) of the Debug rendering of the expression tree the real parser builds; -1 if it does not parse
pub fn tree_hash(pat: &str) -> i64 {
    use std::hash::{Hash, Hasher};
    match catch_unwind(|| fancy_regex::Expr::parse_tree(pat)) {
        Ok(Ok(tree)) => {
            let mut h = std::collections::hash_map::DefaultHasher::new();
            // the expression and the set of referenced groups (ExprTree::backrefs decides what the analysis calls hard);
            // the named-group map is left out: it legitimately differs between named and numbered spellings
            format!("{:?}|{:?}", tree.expr, tree.backrefs.iter().collect::<Vec<usize>>()).hash(&mut h);
            (h.finish() & 0x7fff_ffff) as i64
        }
        _ => -1,
    }
}

pub fn rows_for(re: &fancy_regex::Regex, texts: &[String]) -> Vec<Vec<i64>> {
    let mut rows = Vec::new();
    let mut errors = 0;
    for (k, t) in texts.iter().enumerate() {
        for &p in boundaries(t).iter() {
            if errors >= 3 {
                // the record is rejected already (an error row is never expected); do not burn
                // a million backtracks on each of the remaining cells
                return rows;
            }
            let r = catch_unwind(AssertUnwindSafe(|| re.captures_from_pos(t, p)));
            match r {
                Ok(Ok(None)) => {}
                Ok(Ok(Some(c))) => {
                    let mut row = vec![(k + 1) as i64, p as i64, ST_MATCH];
                    for i in 0..c.len() {
                        match c.get(i) {
                            Some(m) => {
                                row.push(j(m.start()));
                                row.push(j(m.end()));
                            }
                            None => {
                                row.push(-1);
                                row.push(-1);
                            }
                        }
                    }
                    rows.push(row);
                }
                Ok(Err(e)) => {
                    errors += 1;
                    rows.push(vec![(k + 1) as i64, p as i64, run_status(&e)])
                }
                Err(_) => {
                    errors += 1;
                    rows.push(vec![(k + 1) as i64, p as i64, ST_PANIC])
                }
            }
        }
    }
    rows
}

pub fn load_texts(path: &str) -> Result<Vec<String>, String> {
    Ok(read_ndjson(path)?.iter().map(|v| toks2string(&v["t"])).collect())
}

/// --asts F --texts F --out PREFIX --shards N
pub fn cmd_rows(o: &Opts) -> Result<(), String> {
    let asts = read_ndjson(o.get("asts")?)?;
    let texts = load_texts(o.get("texts")?)?;
    let shards = o.num("shards", 1);
    let prefix = o.get("out")?.to_string();
    let nthreads = o.num("threads", 8).max(1);
    let chunks: Vec<Vec<(usize, &Value)>> = {
        let mut c: Vec<Vec<(usize, &Value)>> = (0..nthreads).map(|_| Vec::new()).collect();
        for (i, a) in asts.iter().enumerate() {
            c[i % nthreads].push((i, a));
        }
        c
    };
    let results: Vec<Vec<(usize, String)>> = std::thread::scope(|s| {
        let hs: Vec<_> = chunks
            .iter()
            .map(|chunk| {
                let texts = &texts;
                s.spawn(move || {
                    let mut out = Vec::new();
                    for (i, a) in chunk {
                        let ast = &a["ast"];
                        // a record may carry its own spelling (C19): fragments to be concatenated, "@X" = Text token X as a raw character
                        let pat = match a.get("toks").and_then(|t| t.as_array()) {
                            Some(toks) => toks
                                .iter()
                                .map(|t| {
                                    let t = t.as_str().expect("fragment");
                                    match t.strip_prefix('@') {
                                        Some(tok) if !tok.is_empty() => crate::tok::tok2char(tok).to_string(),
                                        _ => t.to_string(),
                                    }
                                })
                                .collect::<String>(),
                            None => to_pattern(ast),
                        };
                        let rt = roundtrip_ok(ast, &pat);
                        let mut rec = (*a).clone();
                        {
                            let m = rec.as_object_mut().expect("record object");
                            m.insert("pat".into(), json!(ascii(&pat)));
                            m.insert("rt".into(), json!(rt));
                            if a.get("toks").is_some() {
                                m.insert("tree".into(), json!(tree_hash(&pat)));
                                m.insert("tree0".into(), json!(tree_hash(&to_pattern(ast))));
                            }
                            match compile(&pat) {
                                Ok(re) => {
                                    m.insert("st".into(), json!("ok"));
                                    m.insert("ek".into(), json!(""));
                                    m.insert("rows".into(), json!(rows_for(&re, texts)));
                                }
                                Err(ek) => {
                                    m.insert("st".into(), json!("cerr"));
                                    m.insert("ek".into(), json!(ek));
                                    m.insert("rows".into(), json!([]));
                                }
                            }
                        }
                        out.push((*i, rec.to_string()));
                    }
                    out
                })
            })
            .collect();
        hs.into_iter().map(|h| h.join().expect("worker")).collect()
    });
    let mut all: Vec<(usize, String)> = results.into_iter().flatten().collect();
    all.sort_by_key(|x| x.0);
    let mut files: Vec<std::io::BufWriter<std::fs::File>> = (0..shards)
        .map(|s| std::io::BufWriter::new(std::fs::File::create(format!("{}.{}.ndjson", prefix, s)).expect("create")))
        .collect();
    for (i, line) in all {
        writeln!(files[i % shards], "{}", line).map_err(|e| e.to_string())?;
    }
    Ok(())
}

/// ASCII rendering of a pattern for logs (TLC's Json module cannot carry non-ASCII)
pub fn ascii(s: &str) -> String {
    s.chars().map(|c| if c.is_ascii() && c != '\n' && c != '\r' { c.to_string() } else { format!("<{:x}>", c as u32) }).collect()
}

/// --asts F : print id and pattern (debug aid)
pub fn cmd_print(o: &Opts) -> Result<(), String> {
    for a in read_ndjson(o.get("asts")?)? {
        println!("{}\t{}", a["id"], ascii(&to_pattern(&a["ast"])));
    }
    Ok(())
}

/// --asts F --texts F --out-pats F --out-texts F : raw pattern strings and raw texts (UTF-8 JSON) for helper binaries
pub fn cmd_raw(o: &Opts) -> Result<(), String> {
    let mut f = std::io::BufWriter::new(std::fs::File::create(o.get("out-pats")?).map_err(|e| e.to_string())?);
    for a in read_ndjson(o.get("asts")?)? {
        let pat = to_pattern(&a["ast"]);
        let mut rec = a.clone();
        let m = rec.as_object_mut().unwrap();
        m.insert("pat".into(), json!(ascii(&pat)));
        m.insert("raw".into(), json!(pat));
        writeln!(f, "{}", rec).map_err(|e| e.to_string())?;
    }
    let mut f = std::io::BufWriter::new(std::fs::File::create(o.get("out-texts")?).map_err(|e| e.to_string())?);
    for t in load_texts(o.get("texts")?)? {
        writeln!(f, "{}", json!({"raw": t})).map_err(|e| e.to_string())?;
    }
    Ok(())
}
