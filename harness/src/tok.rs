//! Token <-> character table (the spec module Text.tla owns widths and classes; this file only
//! owns the concrete characters).
pub fn tok2char(t: &str) -> char {
    match t {
        "E" => '\u{e9}',
        "Z" => '\u{c9}',
        "T" => '\u{3042}',
        "K" => '\u{e01}',
        "Q" => '\u{1F600}',
        "N" => '\n',
        "D" => '-',
        "S" => ' ',
        "R" => '\r',
        "U" => '_',
        _ => {
            let mut it = t.chars();
            let c = it.next().expect("empty token");
            assert!(it.next().is_none(), "bad token {:?}", t);
            c
        }
    }
}
pub fn char2tok(c: char) -> String {
    match c {
        '\u{e9}' => "E".into(),
        '\u{c9}' => "Z".into(),
        '\u{3042}' => "T".into(),
        '\u{e01}' => "K".into(),
        '\u{1F600}' => "Q".into(),
        '\n' => "N".into(),
        '-' => "D".into(),
        ' ' => "S".into(),
        '\r' => "R".into(),
        '_' => "U".into(),
        c if c.is_ascii_graphic() && !"EZTKQNDSRU".contains(c) => c.to_string(),
        // anything else travels as a hex token; Text.tla treats unknown tokens as 1-byte non-word,
        // so callers must not use them where widths matter
        c => format!("u{:x}", c as u32),
    }
}
pub fn toks2string(v: &serde_json::Value) -> String {
    v.as_array().expect("token array").iter().map(|t| tok2char(t.as_str().expect("token"))).collect()
}
pub fn string2toks(s: &str) -> Vec<String> {
    s.chars().map(char2tok).collect()
}
