//! `vh iters`: whole histories of the iterator API for every pattern x text: find_iter,
//! captures_iter, split, splitn, replacen.  Only texts with at least one yielded item (or an
//! abnormal end) are logged; borrowed replacements are counted.
use crate::astp::to_pattern;
use crate::rows::{ascii, load_texts};
use crate::tok::string2toks;
use crate::util::{j, read_ndjson, Opts};
use fancy_regex::{Captures, NoExpand, Regex, RegexBuilder};
use serde_json::{json, Value};
use std::borrow::Cow;
use std::io::Write;
use std::panic::{catch_unwind, AssertUnwindSafe};

pub const END_OK: i64 = 0;
pub const END_ERR: i64 = 1;
pub const END_RUNAWAY: i64 = 2;
pub const END_PANIC: i64 = 3;

fn cap_items(text: &str) -> usize {
    3 * text.len() + 10
}

/// drive an iterator of spans: returns (endcode, items after the first Err, spans)
fn drive<I: Iterator<Item = Result<(usize, usize), ()>>>(mut it: I, cap: usize) -> (i64, i64, Vec<i64>) {
    let mut spans = Vec::new();
    let mut n = 0;
    loop {
        match it.next() {
            None => return (END_OK, 0, spans),
            Some(Ok((s, e))) => {
                spans.push(j(s));
                spans.push(j(e));
                n += 1;
                if n > cap {
                    return (END_RUNAWAY, 0, spans);
                }
            }
            Some(Err(())) => {
                // the iterator must yield nothing more: ask three more times
                let mut after = 0;
                for _ in 0..3 {
                    if it.next().is_some() {
                        after += 1
                    }
                }
                return (END_ERR, after, spans);
            }
        }
    }
}

fn guarded<F: FnOnce() -> (i64, i64, Vec<i64>)>(f: F) -> (i64, i64, Vec<i64>) {
    match catch_unwind(AssertUnwindSafe(f)) {
        Ok(x) => x,
        Err(_) => (END_PANIC, 0, vec![]),
    }
}

fn span_of(text: &str, piece: &str) -> (usize, usize) {
    let a = piece.as_ptr() as usize - text.as_ptr() as usize;
    (a, a + piece.len())
}

pub const NREPL: usize = 8;

fn replace_with<'t>(re: &Regex, text: &'t str, lim: usize, rid: usize, name: &str) -> Result<Cow<'t, str>, fancy_regex::Error> {
    match rid {
        0 => re.try_replacen(text, lim, |c: &Captures| c.get(0).map(|m| m.as_str().to_string()).unwrap_or_default()),
        1 => re.try_replacen(text, lim, "x"),
        2 => re.try_replacen(text, lim, NoExpand("$1")),
        3 => re.try_replacen(text, lim, "$0"),
        4 => re.try_replacen(text, lim, "[$1]"),
        5 => re.try_replacen(text, lim, format!("${{{}}}", name).as_str()),
        6 => re.try_replacen(text, lim, "$$"),
        7 => re.try_replacen(text, lim, |_: &Captures| "x"),
        _ => unreachable!(),
    }
}

pub fn iter_record(a: &Value, texts: &[String], parts: &str, bl: i64) -> Value {
    let ast = &a["ast"];
    let pat = to_pattern(ast);
    let mut rec = a.clone();
    let m = rec.as_object_mut().unwrap();
    m.insert("pat".into(), json!(ascii(&pat)));
    m.insert("bl".into(), json!(bl));
    for k in ["fi", "ci", "sp", "spn", "rp", "rpb"] {
        m.insert(k.into(), json!([]));
    }
    let built = catch_unwind(|| {
        if bl >= 0 {
            RegexBuilder::new(&pat).backtrack_limit(bl as usize).build()
        } else {
            Regex::new(&pat)
        }
    });
    let re = match built {
        Ok(Ok(re)) => re,
        Ok(Err(e)) => {
            m.insert("st".into(), json!("cerr"));
            m.insert("ek".into(), json!(crate::rows::err_kind(&e)));
            return rec;
        }
        Err(_) => {
            m.insert("st".into(), json!("cerr"));
            m.insert("ek".into(), json!("PANIC"));
            return rec;
        }
    };
    m.insert("st".into(), json!("ok"));
    m.insert("ek".into(), json!(""));
    let (mut fi, mut ci, mut sp, mut spn, mut rp) = (vec![], vec![], vec![], vec![], vec![]);
    let mut rpb = vec![vec![0i64; NREPL]; 4];
    let name1 = "x1";
    let mut bad = 0;
    for (k, t) in texts.iter().enumerate() {
        if bad >= 3 && bl < 0 {
            break; // record already rejected; do not spend minutes on pathological patterns
        }
        let k1 = (k + 1) as i64;
        let cap = cap_items(t);
        let f = guarded(|| drive(re.find_iter(t).map(|r| r.map(|m| (m.start(), m.end())).map_err(|_| ())), cap));
        if f.0 != END_OK {
            bad += 1;
        }
        let active = !f.2.is_empty() || f.0 != END_OK;
        if parts.contains("fi") && active {
            let mut row = vec![k1, f.0, f.1];
            row.extend(&f.2);
            fi.push(row);
        }
        if parts.contains("ci") {
            let c = guarded(|| {
                drive(re.captures_iter(t).map(|r| r.map(|c| { let m = c.get(0).unwrap(); (m.start(), m.end()) }).map_err(|_| ())), cap)
            });
            if !c.2.is_empty() || c.0 != END_OK {
                let mut row = vec![k1, c.0, c.1];
                row.extend(&c.2);
                ci.push(row);
            }
        }
        if parts.contains("sp") {
            let s = guarded(|| drive(re.split(t).map(|r| r.map(|p| span_of(t, p)).map_err(|_| ())), cap));
            if active || s.0 != END_OK || s.2.len() != 2 {
                let mut row = vec![k1, s.0, s.1];
                row.extend(&s.2);
                sp.push(row);
            }
            for lim in 0..=5usize {
                let s = guarded(|| drive(re.splitn(t, lim).map(|r| r.map(|p| span_of(t, p)).map_err(|_| ())), cap));
                if active || s.0 != END_OK || (lim > 0 && s.2.len() != 2) || (lim == 0 && !s.2.is_empty()) {
                    let mut row = vec![k1, lim as i64, s.0, s.1];
                    row.extend(&s.2);
                    spn.push(row);
                }
            }
        }
        if parts.contains("rp") {
            for lim in 0..=3usize {
                for rid in 0..NREPL {
                    let r = catch_unwind(AssertUnwindSafe(|| replace_with(&re, t, lim, rid, name1)));
                    match r {
                        Ok(Ok(Cow::Borrowed(b))) => {
                            if b.as_ptr() == t.as_ptr() && b.len() == t.len() {
                                rpb[lim][rid] += 1;
                            } else {
                                rp.push(json!({"k": k1, "lim": lim, "rid": rid, "end": END_OK, "cow": 0, "res": string2toks(b)}));
                            }
                        }
                        Ok(Ok(Cow::Owned(s))) => rp.push(json!({"k": k1, "lim": lim, "rid": rid, "end": END_OK, "cow": 1, "res": string2toks(&s)})),
                        Ok(Err(_)) => rp.push(json!({"k": k1, "lim": lim, "rid": rid, "end": END_ERR, "cow": 0, "res": []})),
                        Err(_) => rp.push(json!({"k": k1, "lim": lim, "rid": rid, "end": END_PANIC, "cow": 0, "res": []})),
                    }
                }
            }
        }
    }
    m.insert("fi".into(), json!(fi));
    m.insert("ci".into(), json!(ci));
    m.insert("sp".into(), json!(sp));
    m.insert("spn".into(), json!(spn));
    m.insert("rp".into(), json!(rp));
    if parts.contains("rp") {
        let mut v = Vec::new();
        for lim in 0..4 {
            for rid in 0..NREPL {
                v.push(vec![lim as i64, rid as i64, rpb[lim][rid]]);
            }
        }
        m.insert("rpb".into(), json!(v));
    }
    rec
}

/// --asts F --texts F --out PREFIX --shards N --parts fi,ci,sp,rp [--bl N]
pub fn cmd_iters(o: &Opts) -> Result<(), String> {
    let asts = read_ndjson(o.get("asts")?)?;
    let texts = load_texts(o.get("texts")?)?;
    let shards = o.num("shards", 1);
    let prefix = o.get("out")?.to_string();
    let parts = o.get_or("parts", "fi,ci,sp,rp").to_string();
    let nthreads = o.num("threads", 8).max(1);
    let results: Vec<Vec<(usize, String)>> = std::thread::scope(|s| {
        let hs: Vec<_> = (0..nthreads)
            .map(|th| {
                let (asts, texts, parts) = (&asts, &texts, &parts);
                s.spawn(move || {
                    let mut out = Vec::new();
                    for (i, a) in asts.iter().enumerate() {
                        if i % nthreads != th {
                            continue;
                        }
                        let bl = a.get("bl").and_then(|v| v.as_i64()).unwrap_or(-1);
                        out.push((i, iter_record(a, texts, parts, bl).to_string()));
                    }
                    out
                })
            })
            .collect();
        hs.into_iter().map(|h| h.join().expect("worker")).collect()
    });
    let mut all: Vec<(usize, String)> = results.into_iter().flatten().collect();
    all.sort_by_key(|x| x.0);
    let mut files: Vec<std::io::BufWriter<std::fs::File>> = (0..shards)
        .map(|s| std::io::BufWriter::new(std::fs::File::create(format!("{}.{}.ndjson", prefix, s)).expect("create")))
        .collect();
    for (i, line) in all {
        writeln!(files[i % shards], "{}", line).map_err(|e| e.to_string())?;
    }
    Ok(())
}
