//! `vh iters`: whole histories of the iterator API for every pattern x text: find_iter,
//! captures_iter, split, splitn, replacen, plus the single-search entry points per cell.
//! Only texts with at least one yielded item (or an abnormal end) are logged; borrowed
//! replacements are counted.  With --with-regex the same record is also produced from the
//! regex crate (fields prefixed r_) for the C04 differential.
use crate::astp::{to_pattern, to_pattern_variant};
use crate::rows::{ascii, load_texts};
use crate::tok::string2toks;
use crate::util::{boundaries, j, read_ndjson, Opts};
use fancy_regex::{Captures, NoExpand, Regex, RegexBuilder};
use serde_json::{json, Map, Value};
use std::borrow::Cow;
use std::io::Write;
use std::panic::{catch_unwind, AssertUnwindSafe};

pub const END_OK: i64 = 0;
pub const END_ERR: i64 = 1;
pub const END_RUNAWAY: i64 = 2;
pub const END_PANIC: i64 = 3;
pub const NREPL: usize = 8;

fn cap_items(text: &str) -> usize {
    3 * text.len() + 10
}

/// drive an iterator of spans: returns (endcode, items after the first Err, spans)
fn drive<I: Iterator<Item = Result<(usize, usize), ()>>>(mut it: I, cap: usize) -> (i64, i64, Vec<i64>) {
    let mut spans = Vec::new();
    let mut n = 0;
    loop {
        match it.next() {
            None => return (END_OK, 0, spans),
            Some(Ok((s, e))) => {
                spans.push(j(s));
                spans.push(j(e));
                n += 1;
                if n > cap {
                    return (END_RUNAWAY, 0, spans);
                }
            }
            Some(Err(())) => {
                // ask three more times: find_iter / captures_iter must yield nothing more, split hands out
                // the remainder; Ok items that come after the Err are recorded like the others
                let mut after = 0;
                for _ in 0..3 {
                    match it.next() {
                        Some(Ok((s, e))) => {
                            spans.push(j(s));
                            spans.push(j(e));
                            after += 1
                        }
                        Some(Err(())) => after += 1,
                        None => {}
                    }
                }
                return (END_ERR, after, spans);
            }
        }
    }
}

fn guarded<F: FnOnce() -> (i64, i64, Vec<i64>)>(f: F) -> (i64, i64, Vec<i64>) {
    match catch_unwind(AssertUnwindSafe(f)) {
        Ok(x) => x,
        Err(_) => (END_PANIC, 0, vec![]),
    }
}

fn span_of(text: &str, piece: &str) -> (usize, usize) {
    let a = piece.as_ptr() as usize - text.as_ptr() as usize;
    (a, a + piece.len())
}

pub enum Rep {
    Same,
    Borrowed(String),
    Owned(String),
    Err,
    Panic,
}

/// what both crates can be asked
pub trait Eng {
    fn find_iter(&self, t: &str) -> (i64, i64, Vec<i64>);
    fn caps_iter(&self, t: &str) -> (i64, i64, Vec<i64>);
    fn split(&self, t: &str, lim: Option<usize>) -> (i64, i64, Vec<i64>);
    fn replace(&self, t: &str, lim: usize, rid: usize) -> Rep;
    fn is_match(&self, t: &str) -> i64;
    /// [status, s, e]
    fn find(&self, t: &str) -> Vec<i64>;
    fn caps0(&self, t: &str) -> Vec<i64>;
    fn find_at(&self, t: &str, p: usize) -> Vec<i64>;
    /// [status, s0, e0, s1, e1, ...]
    fn caps_at(&self, t: &str, p: usize) -> Vec<i64>;
}

fn span3(r: std::thread::Result<Result<Option<(usize, usize)>, fancy_regex::Error>>) -> Vec<i64> {
    match r {
        Ok(Ok(Some((s, e)))) => vec![0, j(s), j(e)],
        Ok(Ok(None)) => vec![-1, -1, -1],
        Ok(Err(e)) => vec![crate::rows::run_status(&e), -1, -1],
        Err(_) => vec![3, -1, -1],
    }
}

/// .1: also go through the convenience wrappers replace / replace_all / replacen (they unwrap, so only without a backtrack limit)
pub struct Fancy(pub Regex, pub bool);
const NAME1: &str = "x1";

impl Eng for Fancy {
    fn find_iter(&self, t: &str) -> (i64, i64, Vec<i64>) {
        guarded(|| drive(self.0.find_iter(t).map(|r| r.map(|m| (m.start(), m.end())).map_err(|_| ())), cap_items(t)))
    }
    fn caps_iter(&self, t: &str) -> (i64, i64, Vec<i64>) {
        guarded(|| {
            drive(self.0.captures_iter(t).map(|r| r.map(|c| { let m = c.get(0).unwrap(); (m.start(), m.end()) }).map_err(|_| ())), cap_items(t))
        })
    }
    fn split(&self, t: &str, lim: Option<usize>) -> (i64, i64, Vec<i64>) {
        guarded(|| match lim {
            None => drive(self.0.split(t).map(|r| r.map(|p| span_of(t, p)).map_err(|_| ())), cap_items(t)),
            Some(l) => drive(self.0.splitn(t, l).map(|r| r.map(|p| span_of(t, p)).map_err(|_| ())), cap_items(t)),
        })
    }
    fn replace(&self, t: &str, lim: usize, rid: usize) -> Rep {
        let re = &self.0;
        // the documented wrappers are the same operation: replace = limit 1, replace_all = limit 0, replacen(n) = limit n;
        // half of the replacers go through them (limit 3 always through try_replacen)
        let r = catch_unwind(AssertUnwindSafe(|| match (rid, self.1 && lim < 3) {
            (1, true) => Ok(match lim { 0 => re.replace_all(t, "x"), 1 => re.replace(t, "x"), _ => re.replacen(t, lim, "x") }),
            (3, true) => Ok(match lim { 0 => re.replace_all(t, "$0"), 1 => re.replace(t, "$0"), _ => re.replacen(t, lim, "$0") }),
            (4, true) => Ok(match lim { 0 => re.replace_all(t, "[$1]"), 1 => re.replace(t, "[$1]"), _ => re.replacen(t, lim, "[$1]") }),
            (7, true) => Ok(match lim {
                0 => re.replace_all(t, |_: &Captures| "x"),
                1 => re.replace(t, |_: &Captures| "x"),
                _ => re.replacen(t, lim, |_: &Captures| "x"),
            }),
            _ => match rid {
            0 => re.try_replacen(t, lim, |c: &Captures| c.get(0).map(|m| m.as_str().to_string()).unwrap_or_default()),
            1 => re.try_replacen(t, lim, "x"),
            2 => re.try_replacen(t, lim, NoExpand("$1")),
            3 => re.try_replacen(t, lim, "$0"),
            4 => re.try_replacen(t, lim, "[$1]"),
            5 => re.try_replacen(t, lim, format!("${{{}}}", NAME1).as_str()),
            6 => re.try_replacen(t, lim, "$$"),
            7 => re.try_replacen(t, lim, |_: &Captures| "x"),
            _ => unreachable!(),
            },
        }));
        match r {
            Ok(Ok(Cow::Borrowed(b))) => {
                if b.as_ptr() == t.as_ptr() && b.len() == t.len() {
                    Rep::Same
                } else {
                    Rep::Borrowed(b.to_string())
                }
            }
            Ok(Ok(Cow::Owned(s))) => Rep::Owned(s),
            Ok(Err(_)) => Rep::Err,
            Err(_) => Rep::Panic,
        }
    }
    fn is_match(&self, t: &str) -> i64 {
        match catch_unwind(AssertUnwindSafe(|| self.0.is_match(t))) {
            Ok(Ok(false)) => 0,
            Ok(Ok(true)) => 1,
            Ok(Err(_)) => 2,
            Err(_) => 3,
        }
    }
    fn find(&self, t: &str) -> Vec<i64> {
        span3(catch_unwind(AssertUnwindSafe(|| self.0.find(t).map(|o| o.map(|m| (m.start(), m.end()))))))
    }
    fn caps0(&self, t: &str) -> Vec<i64> {
        span3(catch_unwind(AssertUnwindSafe(|| self.0.captures(t).map(|o| o.map(|c| { let m = c.get(0).unwrap(); (m.start(), m.end()) })))))
    }
    fn find_at(&self, t: &str, p: usize) -> Vec<i64> {
        span3(catch_unwind(AssertUnwindSafe(|| self.0.find_from_pos(t, p).map(|o| o.map(|m| (m.start(), m.end()))))))
    }
    fn caps_at(&self, t: &str, p: usize) -> Vec<i64> {
        match catch_unwind(AssertUnwindSafe(|| self.0.captures_from_pos(t, p))) {
            Ok(Ok(None)) => vec![-1],
            Ok(Ok(Some(c))) => {
                let mut row = vec![0];
                for i in 0..c.len() {
                    match c.get(i) {
                        Some(m) => {
                            row.push(j(m.start()));
                            row.push(j(m.end()));
                        }
                        None => {
                            row.push(-1);
                            row.push(-1);
                        }
                    }
                }
                row
            }
            Ok(Err(e)) => vec![crate::rows::run_status(&e)],
            Err(_) => vec![3],
        }
    }
}

pub struct Rx(pub regex::Regex);

impl Eng for Rx {
    fn find_iter(&self, t: &str) -> (i64, i64, Vec<i64>) {
        guarded(|| drive(self.0.find_iter(t).map(|m| Ok((m.start(), m.end()))), cap_items(t)))
    }
    fn caps_iter(&self, t: &str) -> (i64, i64, Vec<i64>) {
        guarded(|| drive(self.0.captures_iter(t).map(|c| { let m = c.get(0).unwrap(); Ok((m.start(), m.end())) }), cap_items(t)))
    }
    fn split(&self, t: &str, lim: Option<usize>) -> (i64, i64, Vec<i64>) {
        guarded(|| match lim {
            None => drive(self.0.split(t).map(|p| Ok(span_of(t, p))), cap_items(t)),
            Some(l) => drive(self.0.splitn(t, l).map(|p| Ok(span_of(t, p))), cap_items(t)),
        })
    }
    fn replace(&self, t: &str, lim: usize, rid: usize) -> Rep {
        let re = &self.0;
        let r = catch_unwind(AssertUnwindSafe(|| match rid {
            0 => re.replacen(t, lim, |c: &regex::Captures| c.get(0).map(|m| m.as_str().to_string()).unwrap_or_default()),
            1 => re.replacen(t, lim, "x"),
            2 => re.replacen(t, lim, regex::NoExpand("$1")),
            3 => re.replacen(t, lim, "$0"),
            4 => re.replacen(t, lim, "[$1]"),
            5 => re.replacen(t, lim, format!("${{{}}}", NAME1).as_str()),
            6 => re.replacen(t, lim, "$$"),
            7 => re.replacen(t, lim, |_: &regex::Captures| "x"),
            _ => unreachable!(),
        }));
        match r {
            Ok(Cow::Borrowed(b)) => {
                if b.as_ptr() == t.as_ptr() && b.len() == t.len() {
                    Rep::Same
                } else {
                    Rep::Borrowed(b.to_string())
                }
            }
            Ok(Cow::Owned(s)) => Rep::Owned(s),
            Err(_) => Rep::Panic,
        }
    }
    fn is_match(&self, t: &str) -> i64 {
        self.0.is_match(t) as i64
    }
    fn find(&self, t: &str) -> Vec<i64> {
        match self.0.find(t) {
            Some(m) => vec![0, j(m.start()), j(m.end())],
            None => vec![-1, -1, -1],
        }
    }
    fn caps0(&self, t: &str) -> Vec<i64> {
        match self.0.captures(t) {
            Some(c) => {
                let m = c.get(0).unwrap();
                vec![0, j(m.start()), j(m.end())]
            }
            None => vec![-1, -1, -1],
        }
    }
    fn find_at(&self, t: &str, p: usize) -> Vec<i64> {
        match self.0.find_at(t, p) {
            Some(m) => vec![0, j(m.start()), j(m.end())],
            None => vec![-1, -1, -1],
        }
    }
    fn caps_at(&self, t: &str, p: usize) -> Vec<i64> {
        match self.0.captures_at(t, p) {
            None => vec![-1],
            Some(c) => {
                let mut row = vec![0];
                for i in 0..c.len() {
                    match c.get(i) {
                        Some(m) => {
                            row.push(j(m.start()));
                            row.push(j(m.end()));
                        }
                        None => {
                            row.push(-1);
                            row.push(-1);
                        }
                    }
                }
                row
            }
        }
    }
}

/// all requested parts for one engine; `pre` is "" or "r_"
pub fn parts_of(e: &dyn Eng, texts: &[String], parts: &str, bl: i64, pre: &str, m: &mut Map<String, Value>) {
    let (mut fi, mut ci, mut sp, mut spn, mut rp): (Vec<Vec<i64>>, Vec<Vec<i64>>, Vec<Vec<i64>>, Vec<Vec<i64>>, Vec<Value>) =
        (vec![], vec![], vec![], vec![], vec![]);
    let (mut cells, mut cells0, mut rows): (Vec<Vec<i64>>, Vec<Vec<i64>>, Vec<Vec<i64>>) = (vec![], vec![], vec![]);
    let mut rpb = vec![vec![0i64; NREPL]; 4];
    let mut trunc: i64 = 0;
    let mut bad = 0;
    for (k, t) in texts.iter().enumerate() {
        let k1 = (k + 1) as i64;
        if bad >= 3 && bl < 0 {
            // three texts with runtime errors: stop here (all parts cover exactly the texts before
            // `trunc`); do not spend minutes on pathological patterns
            trunc = k1;
            break;
        }
        let f = e.find_iter(t);
        if f.0 != END_OK {
            bad += 1;
        }
        let active = !f.2.is_empty() || f.0 != END_OK;
        if parts.contains("fi") && active {
            let mut row = vec![k1, f.0, f.1];
            row.extend(&f.2);
            fi.push(row);
        }
        if parts.contains("ci") {
            let c = e.caps_iter(t);
            if !c.2.is_empty() || c.0 != END_OK {
                let mut row = vec![k1, c.0, c.1];
                row.extend(&c.2);
                ci.push(row);
            }
        }
        if parts.contains("sp") {
            let s = e.split(t, None);
            if active || s.0 != END_OK || s.2.len() != 2 {
                let mut row = vec![k1, s.0, s.1];
                row.extend(&s.2);
                sp.push(row);
            }
            for lim in 0..=5usize {
                let s = e.split(t, Some(lim));
                if active || s.0 != END_OK || (lim > 0 && s.2.len() != 2) || (lim == 0 && !s.2.is_empty()) {
                    let mut row = vec![k1, lim as i64, s.0, s.1];
                    row.extend(&s.2);
                    spn.push(row);
                }
            }
        }
        if parts.contains("co") || parts.contains("rows") {
            if parts.contains("co") {
                let im = e.is_match(t);
                let f0 = e.find(t);
                let c0 = e.caps0(t);
                if im != 0 || f0[0] != -1 || c0[0] != -1 {
                    let mut row = vec![k1, im];
                    row.extend(&f0);
                    row.extend(&c0);
                    cells0.push(row);
                }
            }
            let mut cell_errs = 0;
            for &p in boundaries(t).iter() {
                let c = e.caps_at(t, p);
                if c[0] > 0 {
                    cell_errs += 1;
                }
                if parts.contains("rows") && c[0] != -1 {
                    let mut row = vec![k1, p as i64];
                    row.extend(&c);
                    rows.push(row);
                }
                if parts.contains("co") {
                    let f = e.find_at(t, p);
                    let c3 = if c[0] == 0 { vec![0, c[1], c[2]] } else { vec![c[0], -1, -1] };
                    if f[0] != -1 || c3[0] != -1 {
                        let mut row = vec![k1, p as i64];
                        row.extend(&f);
                        row.extend(&c3);
                        cells.push(row);
                    }
                }
            }
            if cell_errs > 0 && f.0 == END_OK {
                bad += 1;
            }
        }
        if parts.contains("rp") {
            for lim in 0..=3usize {
                for rid in 0..NREPL {
                    match e.replace(t, lim, rid) {
                        Rep::Same => rpb[lim][rid] += 1,
                        Rep::Borrowed(b) => rp.push(json!({"k": k1, "lim": lim, "rid": rid, "end": END_OK, "cow": 0, "res": string2toks(&b)})),
                        Rep::Owned(s) => rp.push(json!({"k": k1, "lim": lim, "rid": rid, "end": END_OK, "cow": 1, "res": string2toks(&s)})),
                        Rep::Err => rp.push(json!({"k": k1, "lim": lim, "rid": rid, "end": END_ERR, "cow": 0, "res": []})),
                        Rep::Panic => rp.push(json!({"k": k1, "lim": lim, "rid": rid, "end": END_PANIC, "cow": 0, "res": []})),
                    }
                }
            }
        }
    }
    let mut ins = |k: &str, v: Value| {
        m.insert(format!("{}{}", pre, k), v);
    };
    ins("fi", json!(fi));
    ins("ci", json!(ci));
    ins("sp", json!(sp));
    ins("spn", json!(spn));
    ins("rp", json!(rp));
    ins("cells", json!(cells));
    ins("cells0", json!(cells0));
    ins("rows", json!(rows));
    ins("trunc", json!(trunc));
    let mut v = Vec::new();
    if parts.contains("rp") {
        for lim in 0..4 {
            for rid in 0..NREPL {
                v.push(vec![lim as i64, rid as i64, rpb[lim][rid]]);
            }
        }
    }
    ins("rpb", json!(v));
}

pub fn iter_record(a: &Value, texts: &[String], parts: &str, bl: i64, with_regex: bool) -> Value {
    let ast = &a["ast"];
    let variant = a.get("variant").and_then(|v| v.as_str()).unwrap_or("");
    let pat = match a.get("toks").and_then(|t| t.as_array()) {
        Some(toks) => toks
            .iter()
            .map(|t| {
                let t = t.as_str().expect("fragment");
                match t.strip_prefix('@') {
                    Some(tok) if !tok.is_empty() => crate::tok::tok2char(tok).to_string(),
                    _ => t.to_string(),
                }
            })
            .collect::<String>(),
        None if variant.is_empty() => to_pattern(ast),
        None => to_pattern_variant(ast, variant),
    };
    let mut rec = a.clone();
    let m = rec.as_object_mut().unwrap();
    m.insert("pat".into(), json!(ascii(&pat)));
    m.insert("bl".into(), json!(bl));
    for pre in ["", "r_"] {
        for k in ["fi", "ci", "sp", "spn", "rp", "rpb", "cells", "cells0", "rows"] {
            m.insert(format!("{}{}", pre, k), json!([]));
        }
        m.insert(format!("{}trunc", pre), json!(0));
    }
    m.insert("r_st".into(), json!("na"));
    let built = catch_unwind(|| {
        if bl >= 0 {
            RegexBuilder::new(&pat).backtrack_limit(bl as usize).build()
        } else {
            Regex::new(&pat)
        }
    });
    match built {
        Ok(Ok(re)) => {
            m.insert("st".into(), json!("ok"));
            m.insert("ek".into(), json!(""));
            parts_of(&Fancy(re, bl < 0), texts, parts, bl, "", m);
        }
        Ok(Err(e)) => {
            m.insert("st".into(), json!("cerr"));
            m.insert("ek".into(), json!(crate::rows::err_kind(&e)));
        }
        Err(_) => {
            m.insert("st".into(), json!("cerr"));
            m.insert("ek".into(), json!("PANIC"));
        }
    }
    if with_regex {
        match regex::Regex::new(&pat) {
            Ok(re) => {
                m.insert("r_st".into(), json!("ok"));
                parts_of(&Rx(re), texts, parts, -1, "r_", m);
            }
            Err(_) => {
                m.insert("r_st".into(), json!("cerr"));
            }
        }
    }
    rec
}

/// --asts F --texts F --out PREFIX --shards N --parts fi,ci,sp,rp,co,rows [--with-regex 1]
pub fn cmd_iters(o: &Opts) -> Result<(), String> {
    let asts = read_ndjson(o.get("asts")?)?;
    let texts = load_texts(o.get("texts")?)?;
    let shards = o.num("shards", 1);
    let prefix = o.get("out")?.to_string();
    let parts = o.get_or("parts", "fi,ci,sp,rp").to_string();
    let with_regex = o.0.contains_key("with-regex");
    let nthreads = o.num("threads", 8).max(1);
    let results: Vec<Vec<(usize, String)>> = std::thread::scope(|s| {
        let hs: Vec<_> = (0..nthreads)
            .map(|th| {
                let (asts, texts, parts) = (&asts, &texts, &parts);
                s.spawn(move || {
                    let mut out = Vec::new();
                    for (i, a) in asts.iter().enumerate() {
                        if i % nthreads != th {
                            continue;
                        }
                        let bl = a.get("bl").and_then(|v| v.as_i64()).unwrap_or(-1);
                        out.push((i, iter_record(a, texts, parts, bl, with_regex).to_string()));
                    }
                    out
                })
            })
            .collect();
        hs.into_iter().map(|h| h.join().expect("worker")).collect()
    });
    let mut all: Vec<(usize, String)> = results.into_iter().flatten().collect();
    all.sort_by_key(|x| x.0);
    let mut files: Vec<std::io::BufWriter<std::fs::File>> = (0..shards)
        .map(|s| std::io::BufWriter::new(std::fs::File::create(format!("{}.{}.ndjson", prefix, s)).expect("create")))
        .collect();
    for (i, line) in all {
        writeln!(files[i % shards], "{}", line).map_err(|e| e.to_string())?;
    }
    Ok(())
}
