//! vh — the conformance harness.  It enumerates nothing on its own authority and judges nothing:
//! it reads spaces exported from the specification, drives the real fancy-regex, and records what
//! the code did as ndjson for TLC to validate.
mod absx;
mod astp;
mod compilec;
mod escape;
mod expand;
mod facts;
mod iters;
mod meta;
mod opts;
mod parsec;
mod rows;
mod savelog;
mod tok;
mod tostr;
mod util;
mod vmrun;

fn main() {
    if std::env::var("VH_PANICS").is_err() { std::panic::set_hook(Box::new(|_| {})); }
    let args: Vec<String> = std::env::args().collect();
    if args.len() < 2 {
        eprintln!("usage: vh <command> [--key value ...]");
        std::process::exit(2);
    }
    let opts = util::Opts::parse(&args[2..]);
    let r = match args[1].as_str() {
        "rows" => rows::cmd_rows(&opts),
        "print" => rows::cmd_print(&opts),
        "raw" => rows::cmd_raw(&opts),
        "expand" => expand::cmd_expand(&opts),
        "iters" => iters::cmd_iters(&opts),
        "meta" => meta::cmd_meta(&opts),
        "escape" => escape::cmd_escape(&opts),
        "opts" => opts::cmd_opts(&opts),
        "facts" => facts::cmd_facts(&opts),
        "vmrun" => vmrun::cmd_vmrun(&opts),
        "progs" => vmrun::cmd_progs(&opts),
        "compile" => compilec::cmd_compile(&opts),
        "parse" => parsec::cmd_parse(&opts),
        "limits" => vmrun::cmd_limits(&opts),
        "savelog" => savelog::cmd_savelog(&opts),
        "tostr" => tostr::cmd_tostr(&opts),
        "probe" => tostr::cmd_probe(&opts),
        c => {
            eprintln!("unknown command {}", c);
            std::process::exit(2)
        }
    };
    if let Err(e) = r {
        eprintln!("vh: tool error: {}", e);
        std::process::exit(2);
    }
}
