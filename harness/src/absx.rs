//! Abstraction of a real `Expr` back into the JSON AST of spec/Ast.tla (used to cross-check the
//! printer and to hand delegated sub-patterns to the specification).
use crate::tok::{char2tok, tok2char};
use fancy_regex::{Assertion, Expr, LookAround};
use serde_json::{json, Value};

/// every token the specification knows (Text.tla)
pub const ALPHA: &[&str] = &[
    "a", "b", "c", "A", "B", "C", "x", "y", "0", "1", "9", "U", "E", "Z", "T", "K", "Q", "N", "D", "S", "R",
];

/// tokens of ALPHA matched by the single-character regex-crate pattern `inner`
pub fn probe_class(inner: &str, casei: bool) -> Option<Vec<String>> {
    let pat = if casei { format!("^(?i:{})$", inner) } else { format!("^(?:{})$", inner) };
    let re = regex::Regex::new(&pat).ok()?;
    let mut set = Vec::new();
    for t in ALPHA {
        let c = tok2char(t).to_string();
        if re.is_match(&c) {
            set.push(t.to_string())
        }
    }
    Some(set)
}

pub fn abstract_expr(e: &Expr, g: &mut usize) -> Value {
    match e {
        Expr::Empty => json!({"k":"empty"}),
        Expr::Any { newline } => json!({"k":"any","nl":newline}),
        Expr::Assertion(a) => {
            let k = match a {
                Assertion::StartText => "bol",
                Assertion::EndText => "eol",
                Assertion::StartLine { crlf: false } => "mbol",
                Assertion::EndLine { crlf: false } => "meol",
                Assertion::StartLine { crlf: true } => "mbolcrlf",
                Assertion::EndLine { crlf: true } => "meolcrlf",
                Assertion::LeftWordBoundary => "lwb",
                Assertion::RightWordBoundary => "rwb",
                Assertion::WordBoundary => "wb",
                Assertion::NotWordBoundary => "nwb",
            };
            json!({"k":k})
        }
        Expr::Literal { val, casei } => {
            let lits: Vec<Value> =
                val.chars().map(|c| json!({"k":"lit","c":char2tok(c),"ci":casei})).collect();
            if lits.len() == 1 {
                lits.into_iter().next().unwrap()
            } else {
                json!({"k":"cat","xs":lits})
            }
        }
        Expr::Concat(v) => json!({"k":"cat","xs": v.iter().map(|x| abstract_expr(x, g)).collect::<Vec<_>>()}),
        Expr::Alt(v) => json!({"k":"alt","xs": v.iter().map(|x| abstract_expr(x, g)).collect::<Vec<_>>()}),
        Expr::Group(x) => {
            *g += 1;
            let n = *g;
            json!({"k":"grp","n":n,"x":abstract_expr(x, g)})
        }
        Expr::LookAround(x, la) => {
            let (k, neg) = match la {
                LookAround::LookAhead => ("look", false),
                LookAround::LookAheadNeg => ("look", true),
                LookAround::LookBehind => ("lookb", false),
                LookAround::LookBehindNeg => ("lookb", true),
            };
            json!({"k":k,"neg":neg,"x":abstract_expr(x, g)})
        }
        Expr::Repeat { child, lo, hi, greedy } => {
            let hi = if *hi == usize::MAX { -1i64 } else { (*hi).min(i32::MAX as usize) as i64 };
            json!({"k":"rep","x":abstract_expr(child, g),"lo":(*lo).min(i32::MAX as usize),"hi":hi,"g":greedy})
        }
        Expr::Delegate { inner, size, casei } => {
            if inner == "\\n*$" && *size == 0 {
                json!({"k":"cat","xs":[{"k":"rep","x":{"k":"lit","c":"N","ci":false},"lo":0,"hi":-1,"g":true},{"k":"eol"}]})
            } else {
                match probe_class(inner, *casei) {
                    Some(set) => json!({"k":"class","set":set,"neg":false,"ci":false}),
                    None => json!({"k":"opaque","inner":inner}),
                }
            }
        }
        Expr::Backref(n) => json!({"k":"bref","n":n}),
        Expr::AtomicGroup(x) => json!({"k":"atom","x":abstract_expr(x, g)}),
        Expr::KeepOut => json!({"k":"keep"}),
        Expr::ContinueFromPreviousMatchEnd => json!({"k":"cont"}),
        Expr::BackrefExistsCondition(n) => json!({"k":"bex","n":n}),
        Expr::Conditional { condition, true_branch, false_branch } => {
            let c = abstract_expr(condition, g);
            let y = abstract_expr(true_branch, g);
            let n = abstract_expr(false_branch, g);
            json!({"k":"cond","c":c,"y":y,"n":n})
        }
        Expr::SubroutineCall(n) => json!({"k":"subr","n":n}),
    }
}

/// Normal form shared by intended and re-parsed ASTs: classes and literals become positive sets /
/// folded literals over ALPHA, nested concatenations are flattened, empty members dropped,
/// names removed, \Z expanded.
pub fn normalize(e: &Value) -> Value {
    let k = e["k"].as_str().unwrap();
    match k {
        "lit" => {
            let ci = e.get("ci").and_then(|v| v.as_bool()).unwrap_or(false);
            let c = e["c"].as_str().unwrap();
            // tokens with a case partner in the alphabet: a/A b/B c/C E/Z (Text.tla Fold)
            let lower = match c { "A" => "a", "B" => "b", "C" => "c", "Z" => "E", x => x }.to_string();
            let foldable = ci && (["a", "b", "c", "E"].contains(&lower.as_str()));
            if foldable {
                json!({"k":"lit","c":lower,"ci":true})
            } else {
                json!({"k":"lit","c":c,"ci":false})
            }
        }
        "class" => {
            let ci = e.get("ci").and_then(|v| v.as_bool()).unwrap_or(false);
            let neg = e["neg"].as_bool().unwrap();
            let set: Vec<&str> = e["set"].as_array().unwrap().iter().map(|t| t.as_str().unwrap()).collect();
            let fold = |t: &str| -> String { match t { "A" => "a", "B" => "b", "C" => "c", "Z" => "E", x => x }.to_string() };
            let mut out = Vec::new();
            for t in ALPHA {
                let inn = if ci { set.iter().any(|s| fold(s) == fold(t)) } else { set.contains(t) };
                if inn != neg {
                    out.push(t.to_string())
                }
            }
            json!({"k":"class","set":out,"neg":false,"ci":false})
        }
        "eolz" => json!({"k":"look","neg":false,"x":{"k":"cat","xs":[{"k":"rep","x":{"k":"lit","c":"N","ci":false},"lo":0,"hi":-1,"g":true},{"k":"eol"}]}}),
        "cat" => {
            let mut xs = Vec::new();
            for x in e["xs"].as_array().unwrap() {
                let nx = normalize(x);
                match nx["k"].as_str().unwrap() {
                    "empty" => {}
                    "cat" => xs.extend(nx["xs"].as_array().unwrap().iter().cloned()),
                    _ => xs.push(nx),
                }
            }
            match xs.len() {
                0 => json!({"k":"empty"}),
                1 => xs.pop().unwrap(),
                _ => json!({"k":"cat","xs":xs}),
            }
        }
        "alt" => json!({"k":"alt","xs": e["xs"].as_array().unwrap().iter().map(normalize).collect::<Vec<_>>()}),
        "rep" => json!({"k":"rep","x":normalize(&e["x"]),"lo":e["lo"],"hi":e["hi"],"g":e["g"]}),
        "grp" => json!({"k":"grp","n":e["n"],"x":normalize(&e["x"])}),
        "atom" => json!({"k":"atom","x":normalize(&e["x"])}),
        "look" | "lookb" => json!({"k":k,"neg":e["neg"],"x":normalize(&e["x"])}),
        "cond" => json!({"k":"cond","c":normalize(&e["c"]),"y":normalize(&e["y"]),"n":normalize(&e["n"])}),
        _ => e.clone(),
    }
}
