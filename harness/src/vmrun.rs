//! `vh vmrun`: VM-level traces (conformance layer L1).  For every record {ast, cells:[[text#, byte
//! offset, limit, skip]..]} the pattern is compiled by the REAL compiler, the program is dumped in
//! the format of spec/VM.tla, and every cell is run with the event sink on.  Output: one "reset"
//! line per run followed by its events.
use crate::absx::abstract_expr;
use crate::astp::to_pattern;
use crate::rows::{ascii, load_texts};
use crate::tok::string2toks;
use crate::util::{j, read_ndjson, Opts};
use fancy_regex::internal::verif::{self, Event};
use fancy_regex::internal::{analyze, compile, Insn, Prog};
use fancy_regex::{wrap_tree, Assertion, Expr};
use serde_json::{json, Value};
use std::io::Write;
use std::panic::{catch_unwind, AssertUnwindSafe};

pub fn dump_insn(i: &Insn) -> Result<Value, String> {
    Ok(match i {
        Insn::End => json!({"op": "End"}),
        Insn::Any => json!({"op": "Any"}),
        Insn::AnyNoNL => json!({"op": "AnyNoNL"}),
        Insn::Assertion(a) => {
            let k = match a {
                Assertion::StartText => "bol",
                Assertion::EndText => "eol",
                Assertion::StartLine { crlf: false } => "mbol",
                Assertion::EndLine { crlf: false } => "meol",
                Assertion::LeftWordBoundary => "lwb",
                Assertion::RightWordBoundary => "rwb",
                Assertion::WordBoundary => "wb",
                Assertion::NotWordBoundary => "nwb",
                _ => return Err("crlf assertion".into()),
            };
            json!({"op": "Assert", "a": k})
        }
        Insn::Lit(s) => json!({"op": "Lit", "s": string2toks(s)}),
        Insn::Split(x, y) => json!({"op": "Split", "x": j(*x), "y": j(*y)}),
        Insn::Jmp(t) => json!({"op": "Jmp", "t": j(*t)}),
        Insn::Save(s) => json!({"op": "Save", "slot": j(*s)}),
        Insn::Save0(s) => json!({"op": "Save0", "slot": j(*s)}),
        Insn::Restore(s) => json!({"op": "Restore", "slot": j(*s)}),
        Insn::RepeatGr { lo, hi, next, repeat } => json!({"op": "RepeatGr", "lo": j(*lo), "hi": j(*hi), "next": j(*next), "rep": j(*repeat)}),
        Insn::RepeatNg { lo, hi, next, repeat } => json!({"op": "RepeatNg", "lo": j(*lo), "hi": j(*hi), "next": j(*next), "rep": j(*repeat)}),
        Insn::RepeatEpsilonGr { lo, next, repeat, check } => {
            json!({"op": "RepeatEpsilonGr", "lo": j(*lo), "next": j(*next), "rep": j(*repeat), "check": j(*check)})
        }
        Insn::RepeatEpsilonNg { lo, next, repeat, check } => {
            json!({"op": "RepeatEpsilonNg", "lo": j(*lo), "next": j(*next), "rep": j(*repeat), "check": j(*check)})
        }
        Insn::FailNegativeLookAround => json!({"op": "FailNegativeLookAround"}),
        Insn::GoBack(n) => json!({"op": "GoBack", "n": j(*n)}),
        Insn::Backref(s) => json!({"op": "Backref", "slot": j(*s)}),
        Insn::BeginAtomic => json!({"op": "BeginAtomic"}),
        Insn::EndAtomic => json!({"op": "EndAtomic"}),
        Insn::Delegate { pattern, start_group, end_group, .. } => {
            let tree = Expr::parse_tree(pattern).map_err(|e| format!("delegate {:?}: {:?}", pattern, e))?;
            let mut g = 0;
            let ast = abstract_expr(&tree.expr, &mut g);
            if has_opaque(&ast) {
                return Err(format!("delegate {:?} cannot be abstracted", pattern));
            }
            json!({"op": "Delegate", "ast": ast, "sg": j(*start_group), "eg": j(*end_group), "pattern": ascii(pattern)})
        }
        Insn::ContinueFromPreviousMatchEnd => json!({"op": "ContinueFromPreviousMatchEnd"}),
        Insn::BackrefExistsCondition(g) => json!({"op": "BackrefExistsCondition", "group": j(*g)}),
    })
}

fn has_opaque(v: &Value) -> bool {
    match v {
        Value::Object(m) => m.get("k").and_then(|k| k.as_str()) == Some("opaque") || m.values().any(has_opaque),
        Value::Array(a) => a.iter().any(has_opaque),
        _ => false,
    }
}

/// the program the real compiler produces for a pattern (same path as Regex::new for fancy patterns)
pub fn real_prog(pat: &str) -> Result<(Prog, usize), String> {
    let raw = Expr::parse_tree(pat).map_err(|e| format!("{:?}", e))?;
    let tree = wrap_tree(raw);
    let info = analyze(&tree).map_err(|e| format!("{:?}", e))?;
    let ng = fancy_regex::internal::verif_facts_preorder(&info).first().map(|f| f.4).unwrap_or(1);
    let prog = compile(&info).map_err(|e| format!("{:?}", e))?;
    Ok((prog, ng))
}

pub fn n_saves(prog: &Prog) -> usize {
    // Prog does not expose n_saves: run once on the empty text and look at the slot vector length
    verif::start_recording();
    let _ = fancy_regex::internal::run_default(prog, "", 0);
    let ev = verif::take_events();
    for e in ev {
        if let Event::Step { saves, .. } = e {
            return saves.len();
        }
    }
    0
}

pub fn cmd_vmrun(o: &Opts) -> Result<(), String> {
    let asts = read_ndjson(o.get("asts")?)?;
    let texts = load_texts(o.get("texts")?)?;
    let texts_tok: Vec<Value> = read_ndjson(o.get("texts")?)?.into_iter().map(|v| v["t"].clone()).collect();
    let shards = o.num("shards", 1);
    let prefix = o.get("out")?;
    let maxev = o.num("maxev", 4000);
    let mut files: Vec<std::io::BufWriter<std::fs::File>> = (0..shards)
        .map(|s| std::io::BufWriter::new(std::fs::File::create(format!("{}.{}.ndjson", prefix, s)).expect("create")))
        .collect();
    let mut run_no = 0usize;
    for a in asts.iter() {
        let pat = to_pattern(&a["ast"]);
        let built = catch_unwind(AssertUnwindSafe(|| real_prog(&pat)));
        let (prog, _ng) = match built {
            Ok(Ok(x)) => x,
            _ => continue,
        };
        let body: Result<Vec<Value>, String> = prog.body.iter().map(dump_insn).collect();
        let body = match body {
            Ok(b) => b,
            Err(_) => continue, // a delegate that the harness cannot abstract: no trace for this pattern
        };
        let ns = n_saves(&prog);
        for cell in a["cells"].as_array().unwrap() {
            let k = cell[0].as_u64().unwrap() as usize - 1;
            let pos = cell[1].as_u64().unwrap() as usize;
            let t = &texts[k];
            if pos > t.len() || !t.is_char_boundary(pos) {
                continue;
            }
            verif::start_recording();
            let res = catch_unwind(AssertUnwindSafe(|| fancy_regex::internal::run_default(&prog, t, pos)));
            let ev = verif::take_events();
            let stats = verif::last_stats();
            let (status, saves): (&str, Vec<i64>) = match &res {
                Ok(Ok(Some(s))) => ("match", s.iter().map(|&v| j(v)).collect()),
                Ok(Ok(None)) => ("nomatch", vec![]),
                Ok(Err(fancy_regex::Error::RuntimeError(fancy_regex::RuntimeError::BacktrackLimitExceeded))) => ("err_limit", vec![]),
                Ok(Err(fancy_regex::Error::RuntimeError(fancy_regex::RuntimeError::StackOverflow))) => ("err_stack", vec![]),
                Ok(Err(_)) => ("err_other", vec![]),
                Err(_) => ("panic", vec![]),
            };
            let f = &mut files[run_no % shards];
            run_no += 1;
            writeln!(
                f,
                "{}",
                json!({"e": "reset", "id": a["id"], "pat": ascii(&pat), "prog": body, "ns": ns, "t": texts_tok[k], "pos": pos, "skip": false,
                       "limit": 1000000, "maxstack": 1000000, "ncap": a["ng"].as_u64().unwrap_or(0) + 1, "status": status, "saves": saves,
                       "bt": stats.backtracks, "insns": stats.insns, "peak": stats.peak_stack, "nev": ev.len()})
            )
            .map_err(|e| e.to_string())?;
            let truncated = ev.len() > maxev;
            for e in ev.iter().take(maxev) {
                let line = match e {
                    Event::Step { pc, ix, depth, saves } => {
                        let mut r = vec![j(*pc), j(*ix), j(*depth)];
                        r.extend(saves.iter().map(|&v| j(v)));
                        json!({"e": "s", "r": r})
                    }
                    Event::Fail => json!({"e": "f", "r": []}),
                    Event::Pop { pc, ix } => json!({"e": "p", "r": [j(*pc), j(*ix)]}),
                    Event::End(c) => json!({"e": "x", "r": [*c]}),
                };
                writeln!(f, "{}", line).map_err(|e| e.to_string())?;
            }
            if truncated {
                writeln!(f, "{}", json!({"e": "x", "r": [4]})).map_err(|e| e.to_string())?;
            } else if status == "err_stack" {
                writeln!(f, "{}", json!({"e": "x", "r": [3]})).map_err(|e| e.to_string())?;
            } else if status == "panic" {
                writeln!(f, "{}", json!({"e": "x", "r": [5]})).map_err(|e| e.to_string())?;
            }
        }
    }
    Ok(())
}

/// `vh progs`: dump the real program of every pattern (for MC_Hybrid VH_USE=real and the drift report)
pub fn cmd_progs(o: &Opts) -> Result<(), String> {
    let asts = read_ndjson(o.get("asts")?)?;
    let out = o.get("out")?;
    let mut f = std::io::BufWriter::new(std::fs::File::create(out).map_err(|e| e.to_string())?);
    for a in asts.iter() {
        let pat = to_pattern(&a["ast"]);
        let built = catch_unwind(AssertUnwindSafe(|| real_prog(&pat)));
        let (prog, _) = match built {
            Ok(Ok(x)) => x,
            _ => continue,
        };
        let body: Result<Vec<Value>, String> = prog.body.iter().map(dump_insn).collect();
        let body = match body {
            Ok(b) => b,
            Err(_) => continue,
        };
        let mut rec = a.clone();
        let m = rec.as_object_mut().unwrap();
        m.insert("pat".into(), json!(ascii(&pat)));
        m.insert("prog".into(), json!(body));
        m.insert("ns".into(), json!(n_saves(&prog)));
        // the tree the real parser built (flattened concatenations, dropped empties), for the drift report
        if let Ok(raw) = Expr::parse_tree(&pat) {
            let mut g = 0;
            m.insert("parsed".into(), abstract_expr(&raw.expr, &mut g));
        }
        writeln!(f, "{}", rec).map_err(|e| e.to_string())?;
    }
    Ok(())
}

/// `vh limits`: C07.  For every record {ast, cells:[[text#, offset]..]}: the unlimited run, its
/// statistics, and the same search under each backtrack limit of {0,1,2,3,5,10,100,10^6,B-1,B}.
pub fn cmd_limits(o: &Opts) -> Result<(), String> {
    use fancy_regex::RegexBuilder;
    let asts = read_ndjson(o.get("asts")?)?;
    let texts = load_texts(o.get("texts")?)?;
    let texts_tok: Vec<Value> = read_ndjson(o.get("texts")?)?.into_iter().map(|v| v["t"].clone()).collect();
    let shards = o.num("shards", 1);
    let prefix = o.get("out")?;
    let mut files: Vec<std::io::BufWriter<std::fs::File>> = (0..shards)
        .map(|s| std::io::BufWriter::new(std::fs::File::create(format!("{}.{}.ndjson", prefix, s)).expect("create")))
        .collect();
    let mut n = 0usize;
    for a in asts.iter() {
        let pat = to_pattern(&a["ast"]);
        let built = catch_unwind(AssertUnwindSafe(|| real_prog(&pat)));
        let (prog, _) = match built {
            Ok(Ok(x)) => x,
            _ => continue,
        };
        let body: Result<Vec<Value>, String> = prog.body.iter().map(dump_insn).collect();
        let body = match body {
            Ok(b) => b,
            Err(_) => continue,
        };
        let ns = n_saves(&prog);
        // is the public Regex for this pattern VM-compiled?  (plain patterns never report limits)
        let fancy = match fancy_regex::Regex::new(&pat) {
            Ok(re) => {
                let mut s = String::new();
                use std::fmt::Write as _;
                let _ = write!(s, "{}", Dbg(&re));
                !s.starts_with("wrapped")
            }
            Err(_) => continue,
        };
        let run = |limit: Option<usize>, t: &str, pos: usize| -> (String, Vec<i64>, verif::RunStats) {
            let p2 = pat.clone();
            let re = match limit {
                Some(l) => RegexBuilder::new(&p2).backtrack_limit(l).build(),
                None => RegexBuilder::new(&p2).build(),
            };
            let re = match re {
                Ok(r) => r,
                Err(_) => return ("cerr".into(), vec![], verif::RunStats::default()),
            };
            let r = catch_unwind(AssertUnwindSafe(|| re.captures_from_pos(t, pos)));
            let stats = verif::last_stats();
            match r {
                Ok(Ok(Some(c))) => {
                    let mut v = Vec::new();
                    for i in 0..c.len() {
                        match c.get(i) {
                            Some(m) => {
                                v.push(j(m.start()));
                                v.push(j(m.end()));
                            }
                            None => {
                                v.push(-1);
                                v.push(-1);
                            }
                        }
                    }
                    ("match".into(), v, stats)
                }
                Ok(Ok(None)) => ("nomatch".into(), vec![], stats),
                Ok(Err(fancy_regex::Error::RuntimeError(fancy_regex::RuntimeError::BacktrackLimitExceeded))) => ("err_limit".into(), vec![], stats),
                Ok(Err(fancy_regex::Error::RuntimeError(fancy_regex::RuntimeError::StackOverflow))) => ("err_stack".into(), vec![], stats),
                Ok(Err(_)) => ("err_other".into(), vec![], stats),
                Err(_) => ("panic".into(), vec![], stats),
            }
        };
        for cell in a["cells"].as_array().unwrap() {
            let k = cell[0].as_u64().unwrap() as usize - 1;
            let pos = cell[1].as_u64().unwrap() as usize;
            let t = &texts[k];
            if pos > t.len() || !t.is_char_boundary(pos) {
                continue;
            }
            let (st0, caps0, stats0) = run(None, t, pos);
            let b = stats0.backtracks;
            let mut lims: Vec<usize> = vec![0, 1, 2, 3, 5, 10, 100, 1_000_000, b];
            if b > 0 {
                lims.push(b - 1);
            }
            lims.sort();
            lims.dedup();
            let mut runs = Vec::new();
            for l in lims {
                let (st, caps, stats) = run(Some(l), t, pos);
                runs.push(json!({"limit": j(l), "status": st, "caps": caps, "bt": stats.backtracks, "insns": stats.insns}));
            }
            writeln!(
                files[n % shards],
                "{}",
                json!({"id": a["id"], "pat": ascii(&pat), "fancy": fancy, "prog": body, "ns": ns, "ng": a["ng"], "t": texts_tok[k], "pos": pos,
                       "status": st0, "caps": caps0, "bt": b, "insns": stats0.insns, "peak": stats0.peak_stack, "runs": runs})
            )
            .map_err(|e| e.to_string())?;
            n += 1;
        }
    }
    Ok(())
}

struct Dbg<'a>(&'a fancy_regex::Regex);
impl<'a> std::fmt::Display for Dbg<'a> {
    fn fmt(&self, f: &mut std::fmt::Formatter<'_>) -> std::fmt::Result {
        self.0.debug_print(f)
    }
}
