//! `vh meta`: group metadata of Regex and Captures (C16): captures_len, capture_names, and for the
//! first match in every text: Captures::len, iter(), get(i) for i up to len+1, name(n) for every name.
use crate::astp::to_pattern;
use crate::rows::{ascii, compile, load_texts};
use crate::tok::string2toks;
use crate::util::{j, read_ndjson, Opts};
use serde_json::json;
use std::io::Write;
use std::panic::{catch_unwind, AssertUnwindSafe};

fn sp(m: Option<fancy_regex::Match>) -> Vec<i64> {
    match m {
        Some(m) => vec![j(m.start()), j(m.end())],
        None => vec![-1, -1],
    }
}

pub fn cmd_meta(o: &Opts) -> Result<(), String> {
    let asts = read_ndjson(o.get("asts")?)?;
    let texts = load_texts(o.get("texts")?)?;
    let shards = o.num("shards", 1);
    let prefix = o.get("out")?;
    let mut files: Vec<std::io::BufWriter<std::fs::File>> = (0..shards)
        .map(|s| std::io::BufWriter::new(std::fs::File::create(format!("{}.{}.ndjson", prefix, s)).expect("create")))
        .collect();
    for (i, a) in asts.iter().enumerate() {
        let pat = to_pattern(&a["ast"]);
        let mut rec = a.clone();
        let m = rec.as_object_mut().unwrap();
        m.insert("pat".into(), json!(ascii(&pat)));
        m.insert("clen".into(), json!(-1));
        m.insert("names".into(), json!([]));
        m.insert("ms".into(), json!([]));
        match compile(&pat) {
            Err(ek) => {
                m.insert("st".into(), json!("cerr"));
                m.insert("ek".into(), json!(ek));
            }
            Ok(re) => {
                m.insert("st".into(), json!("ok"));
                m.insert("ek".into(), json!(""));
                // a panic of the code under test is data: clen -3 / a PANIC marker are never expected values
                let clen = catch_unwind(AssertUnwindSafe(|| re.captures_len() as i64)).unwrap_or(-3);
                m.insert("clen".into(), json!(clen));
                let names: Vec<Option<String>> = match catch_unwind(AssertUnwindSafe(|| re.capture_names().map(|n| n.map(|s| s.to_string())).collect::<Vec<_>>())) {
                    Ok(v) => v,
                    Err(_) => vec![Some("PANIC".to_string())],
                };
                m.insert("names".into(), json!(names.iter().map(|n| n.as_ref().map(|s| string2toks(s)).unwrap_or_default()).collect::<Vec<_>>()));
                let mut ms = Vec::new();
                for (k, t) in texts.iter().enumerate() {
                    let r = catch_unwind(AssertUnwindSafe(|| re.captures(t)));
                    match r {
                        Ok(Ok(Some(c))) => {
                            let inspected = catch_unwind(AssertUnwindSafe(|| {
                                let len = c.len();
                                let it: Vec<i64> = c.iter().flat_map(|m| sp(m)).collect();
                                let gets: Vec<i64> = (0..len + 2).flat_map(|i| sp(c.get(i))).collect();
                                let mut nm: Vec<Vec<i64>> = Vec::new();
                                for (idx, n) in names.iter().enumerate() {
                                    if let Some(n) = n {
                                        let mut row = vec![idx as i64];
                                        row.extend(sp(c.name(n)));
                                        nm.push(row);
                                    }
                                }
                                let unknown = sp(c.name("nosuchname"));
                                json!({"k": k + 1, "len": len, "it": it, "gets": gets, "nm": nm, "unknown": unknown})
                            }));
                            match inspected {
                                Ok(v) => ms.push(v),
                                // an accessor panicked on a successful search: len 0 can never satisfy the equations
                                Err(_) => ms.push(json!({"k": k + 1, "len": 0, "it": [], "gets": [], "nm": [], "unknown": [-1, -1]})),
                            }
                        }
                        Ok(Ok(None)) => {}
                        Ok(Err(_)) => ms.push(json!({"k": k + 1, "len": -1, "it": [], "gets": [], "nm": [], "unknown": [-1, -1]})),
                        Err(_) => ms.push(json!({"k": k + 1, "len": -2, "it": [], "gets": [], "nm": [], "unknown": [-1, -1]})),
                    }
                }
                m.insert("ms".into(), json!(ms));
            }
        }
        writeln!(files[i % shards], "{}", rec).map_err(|e| e.to_string())?;
    }
    Ok(())
}
