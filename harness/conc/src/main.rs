//! vhconc — C18: concurrent use of one compiled Regex.  This is a separate crate on purpose: the
//! static assertion below fails to COMPILE if Regex stops being Send + Sync + Clone, and only the
//! C18 check builds this crate (so that failure is attributed to C18, not to the whole harness).
//!
//! Every thread runs every (pattern, text, offset) cell `rounds` times in its own seeded order,
//! half of the threads through a shared reference, half through their own clone; all threads start
//! together behind a barrier.  Output: records in the format of `vh rows` where `rows` is the SET
//! of all results any thread ever obtained for the pattern -- a single wrong, torn or cross-talked
//! result shows up as a row the specification does not allow.
use fancy_regex::Regex;
use rand::seq::SliceRandom;
use rand::SeedableRng;
use serde_json::{json, Value};
use std::collections::BTreeSet;
use std::io::{BufRead, Write};
use std::panic::{catch_unwind, AssertUnwindSafe};
use std::sync::{Arc, Barrier};

fn assert_send_sync_clone<T: Send + Sync + Clone>() {}
#[allow(dead_code)]
fn static_assertions() {
    assert_send_sync_clone::<Regex>();
}

fn read_ndjson(path: &str) -> Vec<Value> {
    let f = std::fs::File::open(path).expect("open");
    std::io::BufReader::new(f).lines().map(|l| l.unwrap()).filter(|l| !l.trim().is_empty()).map(|l| serde_json::from_str(&l).expect("json")).collect()
}

fn j(x: usize) -> i64 {
    if x == usize::MAX {
        -1
    } else {
        x.min(i32::MAX as usize) as i64
    }
}

fn call(re: &Regex, t: &str, k: usize, p: usize) -> Vec<i64> {
    match catch_unwind(AssertUnwindSafe(|| re.captures_from_pos(t, p))) {
        Ok(Ok(None)) => vec![],
        Ok(Ok(Some(c))) => {
            let mut row = vec![(k + 1) as i64, p as i64, 0];
            for i in 0..c.len() {
                match c.get(i) {
                    Some(m) => {
                        row.push(j(m.start()));
                        row.push(j(m.end()));
                    }
                    None => {
                        row.push(-1);
                        row.push(-1);
                    }
                }
            }
            row
        }
        Ok(Err(_)) => vec![(k + 1) as i64, p as i64, 1],
        Err(_) => vec![(k + 1) as i64, p as i64, 3],
    }
}

fn main() {
    std::panic::set_hook(Box::new(|_| {}));
    let a: Vec<String> = std::env::args().collect();
    let get = |k: &str| -> String { a.iter().position(|x| x == k).map(|i| a[i + 1].clone()).unwrap_or_else(|| panic!("missing {}", k)) };
    let pats = read_ndjson(&get("--pats"));
    let texts: Vec<String> = read_ndjson(&get("--texts")).iter().map(|v| v["raw"].as_str().unwrap().to_string()).collect();
    let threads: usize = get("--threads").parse().unwrap();
    let rounds: usize = get("--rounds").parse().unwrap();
    let seed: u64 = get("--seed").parse().unwrap();
    let shards: usize = get("--shards").parse().unwrap();
    let prefix = get("--out");
    let mut compiled: Vec<Option<Regex>> = Vec::new();
    for p in &pats {
        compiled.push(Regex::new(p["raw"].as_str().unwrap()).ok());
    }
    let texts = Arc::new(texts);
    let mut cells: Vec<(usize, usize)> = Vec::new();
    for (k, t) in texts.iter().enumerate() {
        for (p, _) in t.char_indices() {
            cells.push((k, p));
        }
        cells.push((k, t.len()));
    }
    let cells = Arc::new(cells);
    // A second set of regexes with the backtrack limit set to EXACTLY what the pattern needs single-threaded (maximum over all
    // cells, read from the hook statistics): sequentially every call still succeeds, so any interference between concurrent
    // searches in the limit accounting shows up as a spurious error row.
    let mut limited: Vec<Option<Regex>> = Vec::new();
    for (i, re) in compiled.iter().enumerate() {
        let mut bmax = 0usize;
        if let Some(re) = re {
            for &(k, p) in cells.iter() {
                let _ = re.captures_from_pos(&texts[k], p);
                bmax = bmax.max(fancy_regex::internal::verif::last_stats().backtracks);
            }
        }
        limited.push(fancy_regex::RegexBuilder::new(pats[i]["raw"].as_str().unwrap()).backtrack_limit(bmax).build().ok());
    }
    let compiled = Arc::new(compiled);
    let limited = Arc::new(limited);
    let barrier = Arc::new(Barrier::new(threads));
    let mut handles = Vec::new();
    for th in 0..threads {
        let (compiled, limited, texts, cells, barrier) = (compiled.clone(), limited.clone(), texts.clone(), cells.clone(), barrier.clone());
        handles.push(std::thread::spawn(move || {
            let mut rng = rand::rngs::StdRng::seed_from_u64(seed * 1000 + th as u64);
            // odd threads work on their own clones, even threads on the shared objects
            let own: Vec<Option<Regex>> = if th % 2 == 1 { compiled.iter().cloned().collect() } else { Vec::new() };
            let own_limited: Vec<Option<Regex>> = if th % 2 == 1 { limited.iter().cloned().collect() } else { Vec::new() };
            let mut seen: Vec<BTreeSet<Vec<i64>>> = vec![BTreeSet::new(); compiled.len()];
            let mut ncalls = 0usize;
            barrier.wait();
            for round in 0..rounds {
                // even rounds run in LOCKSTEP: every thread takes the patterns in the same order and waits for the others before
                // each one, so that all threads are inside the same Regex at the same time (each on its own shuffle of the cells,
                // i.e. on different texts); odd rounds let every thread wander on its own
                let lockstep = round % 2 == 0;
                let mut order: Vec<usize> = (0..compiled.len()).collect();
                if lockstep {
                    order.shuffle(&mut rand::rngs::StdRng::seed_from_u64(seed * 7919 + round as u64));
                } else {
                    order.shuffle(&mut rng);
                }
                for pi in order {
                    if lockstep {
                        barrier.wait();
                    }
                    // rounds 2,3 (6,7 ...) use the regexes with the exact backtrack limit
                    let re = match (th % 2 == 1, (round / 2) % 2 == 1) {
                        (true, false) => own[pi].as_ref(),
                        (true, true) => own_limited[pi].as_ref(),
                        (false, false) => compiled[pi].as_ref(),
                        (false, true) => limited[pi].as_ref(),
                    };
                    let re = match re {
                        Some(r) => r,
                        None => continue,
                    };
                    let mut cs: Vec<(usize, usize)> = cells.to_vec();
                    cs.shuffle(&mut rng);
                    for (k, p) in cs {
                        let row = call(re, &texts[k], k, p);
                        ncalls += 1;
                        if !row.is_empty() {
                            seen[pi].insert(row);
                        }
                    }
                }
            }
            (seen, ncalls)
        }));
    }
    let mut merged: Vec<BTreeSet<Vec<i64>>> = vec![BTreeSet::new(); pats.len()];
    let mut total = 0usize;
    let mut dead = 0usize;
    for h in handles {
        match h.join() {
            Ok((seen, n)) => {
                total += n;
                for (i, s) in seen.into_iter().enumerate() {
                    merged[i].extend(s);
                }
            }
            Err(_) => dead += 1,
        }
    }
    let mut files: Vec<std::io::BufWriter<std::fs::File>> =
        (0..shards).map(|s| std::io::BufWriter::new(std::fs::File::create(format!("{}.{}.ndjson", prefix, s)).expect("create"))).collect();
    for (i, p) in pats.iter().enumerate() {
        let mut rec = p.clone();
        let m = rec.as_object_mut().unwrap();
        m.remove("raw");
        let mut rows: Vec<Vec<i64>> = merged[i].iter().cloned().collect();
        if dead > 0 {
            rows.push(vec![0, 0, 3]); // a worker thread died: never an expected row
        }
        m.insert("st".into(), json!(if compiled[i].is_some() { "ok" } else { "cerr" }));
        m.insert("ek".into(), json!(""));
        m.insert("rt".into(), json!(true));
        m.insert("rows".into(), json!(rows));
        m.insert("calls".into(), json!(total));
        writeln!(files[i % shards], "{}", rec).unwrap();
    }
    eprintln!("vhconc: {} threads, {} calls, {} dead", threads, total, dead);
}
